"""Obligation context: symbolic inputs, running real code under pysym, discharging the
final query, vacuity (reachability) twin and model extraction."""
import operator
import time

import z3

from pysym import values as V
from pysym.values import G, SInt, SBool, Unsupported, WidthError, HarnessError, bvv, zt, zb, binop
from pysym.engine import Engine, run, NORMAL, RAISE, State

E_DEFAULT = 1 << 30


class Ob:
    """One obligation: a fixed shape, symbolic contents."""

    def __init__(self, W, mul_precise_bits=24, timeout_s=60, models=None, abstract=False, max_unroll=80):
        V.reset(W, mul_precise_bits)
        self.W = W
        self.eng = Engine(models=models, abstract=abstract, query_timeout_ms=int(timeout_s * 1000), max_unroll=max_unroll)
        self.assume = []
        self.vars = {}        # name -> z3 var (for model extraction)
        self.timeout_s = timeout_s
        self.queries = 0
        self.solver_s = 0.0

    # ------------------------------------------------------------ symbolic inputs
    def int(self, name, lo, hi):
        v = z3.BitVec(name, self.W)
        if not V.fits(lo, hi):
            raise WidthError('input interval exceeds W')
        self.assume.append(z3.And(v >= bvv(lo), v <= bvv(hi)))
        self.vars[name] = v
        return SInt(v, lo, hi)

    def bit(self, name):
        return self.int(name, 0, 1)

    def bool(self, name):
        v = z3.Bool(name)
        self.vars[name] = v
        return SBool(v)

    def man(self, name, bc, odd=True):
        """mantissa with exactly bc bits"""
        if bc == 1:
            return 1
        m = self.int(name, 1 << (bc - 1), (1 << bc) - 1)
        if odd:
            self.assume.append(z3.Extract(0, 0, m.t) == 1)
        return m

    def mpf(self, name, bc, exp=None, E=E_DEFAULT, sign=None):
        """a regular nonzero canonical raw mpf with bit length bc; exponent symbolic in [-E, E]
        unless given (int or SInt)"""
        m = self.man(name + '_man', bc)
        s = self.bit(name + '_sign') if sign is None else sign
        e = self.int(name + '_exp', -E, E) if exp is None else exp
        return (s, m, e, bc)

    # ------------------------------------------------------------ running
    def run(self, fn, args, kwargs=None, heap=None):
        return run(self.eng, fn, args, kwargs or {}, self.assume, heap)

    def _solver(self):
        s = z3.SolverFor('QF_BV')
        s.set('timeout', int(self.timeout_s * 1000))
        return s

    def check(self, pc, extra):
        s = self._solver()
        s.add(*self.eng.base)
        s.add(*G.SIDE)
        s.add(*pc)
        s.add(extra)
        t0 = time.time()
        r = s.check()
        self.solver_s += time.time() - t0
        self.queries += 1
        return str(r), (s.model() if r == z3.sat else None)

    def model_values(self, m):
        out = {}
        for k, v in self.vars.items():
            val = m.eval(v, model_completion=True)
            if z3.is_bv_value(val):
                out[k] = val.as_signed_long()
            else:
                out[k] = z3.is_true(val)
        return out

    def eval_val(self, m, v, depth=0):
        if isinstance(v, SInt):
            return m.eval(v.t, model_completion=True).as_signed_long()
        if isinstance(v, SBool):
            return z3.is_true(m.eval(v.t, model_completion=True))
        if isinstance(v, (tuple, list)) and depth < 4:
            return type(v)(self.eval_val(m, x, depth + 1) for x in v)
        if isinstance(v, (int, str, bool, float, type(None))):
            return v
        return '<%s object>' % type(v).__name__

    def prove(self, outs, good, good_raise=None):
        """outs: outcomes of run().  good(value, state) -> z3 Bool that must hold on every NORMAL
        outcome; good_raise(exc, state) -> z3 Bool / bool for RAISE outcomes (default: a raise is a
        violation).  Returns dict(status=..., model=..., witness=...)."""
        res = dict(status='proved', model=None, witness=None, outcomes=len(outs), detail='')
        reach = False
        for st, kind, val in outs:
            if kind == NORMAL:
                g = good(val, st)
            elif kind == RAISE:
                if good_raise is None:
                    g = z3.BoolVal(False)
                else:
                    g = good_raise(val, st)
            else:
                raise HarnessError('unexpected outcome kind %r' % kind)
            goals = list(g) if isinstance(g, (list, tuple)) else [g]     # independent goals are discharged by separate queries
            for g in goals:
                if isinstance(g, bool):
                    g = z3.BoolVal(g)
                if isinstance(g, SBool):
                    g = g.t
                r, m = self.check(st.pc, z3.Not(g))
                if r == 'sat':
                    res.update(status='violated', model=self.model_values(m),
                               detail=('raised %r' % (val,)) if kind == RAISE else 'symbolic result under model: %s' % (self.eval_val(m, val),))
                    return res
                if r != 'unsat':
                    res.update(status='inconclusive', detail='solver %s on final query' % r)
                    return res
            if not reach:
                r2, m2 = self.check(st.pc, z3.BoolVal(True))
                if r2 == 'sat':
                    reach = True
                    res['witness'] = self.model_values(m2)
        if not outs:
            res.update(status='inconclusive', detail='no feasible outcome (vacuous preconditions?)')
        elif not reach:
            res.update(status='inconclusive', detail='vacuous: no outcome reachable')
        return res

    def stats(self):
        e = self.eng
        return dict(queries=self.queries + e.stats['feas_queries'], solver_s=round(self.solver_s + e.stats['feas_time'], 3),
                    forks=e.stats['forks'], merges=e.stats['merges'], calls=e.stats['calls'],
                    funcs=dict(e.funcs), cov={('%s:%d' % k): sorted(v) for k, v in e.cov.items()},
                    extra=dict(G.stats))


def add(a, b):
    return binop(operator.add, a, b)


def sub(a, b):
    return binop(operator.sub, a, b)
