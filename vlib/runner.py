"""Parallel obligation runner with hard per-obligation deadlines (a stuck worker is killed
and the obligation recorded as inconclusive -- never as held)."""
import importlib
import multiprocessing as mp
import os
import queue
import sys
import time
import traceback


def resolve(spec):
    mod, _, fn = spec.partition(':')
    return getattr(importlib.import_module(mod), fn)


def run_one(spec, params):
    """run a symbolic obligation function with width retry; returns result dict"""
    from pysym.values import Unsupported, WidthError, HarnessError
    t0 = time.time()
    fn = resolve(spec)
    res = None
    bump = 0
    while True:
        try:
            p = dict(params)
            if bump:
                p['_wbump'] = bump
            res = fn(p)
            break
        except WidthError as e:
            bump += 1
            if bump > 3:
                res = dict(status='inconclusive', detail='WidthError: %s' % e)
                break
        except Unsupported as e:
            res = dict(status='inconclusive', detail='Unsupported: %s' % e)
            break
        except HarnessError as e:
            res = dict(status='harness_error', detail='HarnessError: %s' % e)
            break
        except RecursionError as e:
            res = dict(status='inconclusive', detail='RecursionError')
            break
        except Exception as e:
            res = dict(status='harness_error', detail='%s: %s\n%s' % (type(e).__name__, e, traceback.format_exc()[-1500:]))
            break
    res.setdefault('stats', {})
    res['wall_s'] = round(time.time() - t0, 3)
    res['spec'] = spec
    res['params'] = params
    return res


def _worker(tasks, results):
    sys.setrecursionlimit(100000)
    import threading
    threading.stack_size(512 * 1024 * 1024)
    out = {}

    def loop():
        while True:
            try:
                item = tasks.get(timeout=1)
            except queue.Empty:
                continue
            if item is None:
                return
            idx, spec, params = item
            results.put(('start', idx, os.getpid(), time.time()))
            try:
                res = run_one(spec, params)
            except BaseException as e:       # noqa
                res = dict(status='harness_error', detail='worker crash: %r' % (e,), spec=spec, params=params, stats={}, wall_s=0)
            results.put(('done', idx, os.getpid(), res))
    t = threading.Thread(target=loop)
    t.start()
    t.join()


def run_all(obls, nworkers=None, ob_deadline_s=120, total_deadline_s=None, progress=None):
    """obls: list of (spec, params).  Returns list of result dicts (same order)."""
    ctx = mp.get_context('fork')
    nworkers = nworkers or min(16, os.cpu_count() or 4)
    nworkers = max(1, min(nworkers, len(obls)))
    tasks = ctx.Queue()
    results = ctx.Queue()
    for i, (spec, params) in enumerate(obls):
        tasks.put((i, spec, params))
    procs = {}

    def spawn():
        p = ctx.Process(target=_worker, args=(tasks, results), daemon=True)
        p.start()
        procs[p.pid] = p
    for _ in range(nworkers):
        spawn()
    out = [None] * len(obls)
    running = {}     # pid -> (idx, t0)
    ndone = 0
    t_start = time.time()
    stopping = False
    while ndone < len(obls):
        try:
            msg = results.get(timeout=0.5)
        except queue.Empty:
            msg = None
        now = time.time()
        if msg is not None:
            if msg[0] == 'start':
                _, idx, pid, t0 = msg
                running[pid] = (idx, t0)
            else:
                _, idx, pid, res = msg
                running.pop(pid, None)
                if out[idx] is None:
                    out[idx] = res
                    ndone += 1
                    if progress:
                        progress(idx, res)
        # hard deadlines
        for pid, (idx, t0) in list(running.items()):
            if now - t0 > ob_deadline_s:
                p = procs.pop(pid, None)
                if p is not None:
                    p.kill()
                    p.join(1)
                running.pop(pid, None)
                if out[idx] is None:
                    spec, params = obls[idx]
                    out[idx] = dict(status='inconclusive', detail='hard deadline %ds exceeded' % ob_deadline_s, spec=spec,
                                    params=params, stats={}, wall_s=round(now - t0, 1))
                    ndone += 1
                    if progress:
                        progress(idx, out[idx])
                if not stopping:
                    spawn()
        # dead workers (crash)
        for pid, p in list(procs.items()):
            if not p.is_alive():
                procs.pop(pid)
                if pid in running:
                    idx, t0 = running.pop(pid)
                    if out[idx] is None:
                        spec, params = obls[idx]
                        out[idx] = dict(status='inconclusive', detail='worker died (exit %s)' % p.exitcode, spec=spec, params=params,
                                        stats={}, wall_s=round(now - t0, 1))
                        ndone += 1
                if not stopping and ndone < len(obls):
                    spawn()
        if total_deadline_s and not stopping and now - t_start > total_deadline_s:
            stopping = True
            # drain queue: everything not started is skipped
            try:
                while True:
                    item = tasks.get_nowait()
                    if item is None:
                        continue
                    idx, spec, params = item
                    if out[idx] is None:
                        out[idx] = dict(status='skipped', detail='tier time budget exhausted', spec=spec, params=params, stats={}, wall_s=0)
                        ndone += 1
            except queue.Empty:
                pass
    for p in procs.values():
        tasks.put(None)
    for p in procs.values():
        p.join(2)
        if p.is_alive():
            p.kill()
    return out
