"""Reference semantics written directly as z3 terms (share no structure with mpmath's code),
plus the plain-Python (fractions) twins used for concrete replay."""
from fractions import Fraction

import z3

from pysym.values import G, bvv, zt, SInt

RNDS = 'nfcdu'


def B(n):
    return bvv(n)


def ref_round(A, sticky, p, rnd, neg, bl_lo, bl_hi):
    """Correct rounding, textbook definition.
    A: BV magnitude > 0 whose bit length lies in [bl_lo, bl_hi]; the true magnitude is A + f with
    0 < f < 1 iff `sticky`.  neg: z3 Bool, sign of the value.  Returns the BV magnitude (same
    scale as A) of the p-bit value selected by rounding mode rnd."""
    res = None
    for bl in range(bl_hi, max(bl_lo, 1) - 1, -1):
        k = bl - p
        if k <= 0:
            # value A (+f) is representable iff not sticky; with sticky the guard bits must have been
            # supplied by the caller (A carries >= p+2 bits) -- callers assert that separately
            val = A
        else:
            q = z3.LShR(A, k)
            r = A & B((1 << k) - 1)
            half = B(1 << (k - 1))
            inexact = z3.Or(r != B(0), sticky)
            if rnd == 'n':
                up = z3.Or(z3.UGT(r, half), z3.And(r == half, z3.Or(sticky, z3.Extract(0, 0, q) == 1)))
            else:
                away = {'f': neg, 'c': z3.Not(neg), 'd': z3.BoolVal(False), 'u': z3.BoolVal(True)}[rnd]
                up = z3.And(inexact, away)
            val = z3.If(up, q + B(1), q) << k
        cond = z3.And(z3.UGE(A, B(1 << (bl - 1))), z3.ULT(A, B(1 << bl))) if bl < G.W - 1 else z3.UGE(A, B(1 << (bl - 1)))
        res = val if res is None else z3.If(cond, val, res)
    return res


def canonical(res, p=None):
    """canonical-form predicate of a regular nonzero raw mpf (s, m, e, b) of SInt/int components"""
    s, m, e, b = [zt(x) for x in res]
    one = B(1)
    c = [z3.Or(s == B(0), s == one), z3.Extract(0, 0, m) == 1, m > B(0), b >= one, b < B(G.W - 2),
         z3.UGE(m, one << (b - one)), z3.ULT(m, one << b)]
    if p:
        c.append(b <= B(p))
    return z3.And(c)


def is_tuple(res, tup):
    return z3.And([zt(x) == B(int(y)) for x, y in zip(res, tup)])


FZERO = (0, 0, 0, 0)
FNAN = (0, 0, -123, -1)
FINF = (0, 0, -456, -2)
FNINF = (1, 0, -789, -3)


def value_matches(res, neg, R, base, maxshift, p=None):
    """result tuple `res` is canonical (with bc <= p), has sign `neg` and magnitude R * 2**base
    where R is a BV at scale `base` (BV term)."""
    rs, rm, re, rb = [zt(x) for x in res]
    d = re - base
    return z3.And(canonical(res, p), (rs == B(1)) == neg, d >= B(0), d <= B(maxshift), (rm << d) == R,
                  z3.LShR(rm << d, d) == rm)


# ----------------------------------------------------------------------------- concrete twins
def frac_of(t, shift=0):
    """exact Fraction of a concrete finite raw mpf tuple, divided by 2**shift (keeps huge base exponents out of the oracle)"""
    s, m, e, b = t
    v = Fraction(m) * (Fraction(2) ** (e - shift))
    return -v if s else v


def is_special(t):
    return t[1] == 0 and t[2] != 0


def canonical_concrete(t, p=None):
    s, m, e, b = t
    if t == FZERO or t in (FNAN, FINF, FNINF):
        return True
    if m == 0:
        return False
    if s not in (0, 1) or m < 0 or m & 1 == 0 or b != m.bit_length():
        return False
    if not all(type(x) is int for x in t):
        return False
    if p and b > p:
        return False
    return True


def round_fraction(x, p, rnd):
    """correctly rounded p-bit value of Fraction x (returns Fraction)"""
    if x == 0:
        return Fraction(0)
    neg = x < 0
    a = -x if neg else x
    # find e with 2**(e) <= a < 2**(e+1)
    n, d = a.numerator, a.denominator
    e = n.bit_length() - d.bit_length()
    if Fraction(2) ** e > a:
        e -= 1
    if Fraction(2) ** (e + 1) <= a:
        e += 1
    assert Fraction(2) ** e <= a < Fraction(2) ** (e + 1)
    ulp = Fraction(2) ** (e - p + 1)
    q = a / ulp
    fl = q.numerator // q.denominator
    rem = q - fl
    if rem == 0:
        r = fl
    elif rnd == 'n':
        if rem > Fraction(1, 2) or (rem == Fraction(1, 2) and fl & 1):
            r = fl + 1
        else:
            r = fl
    else:
        away = {'f': neg, 'c': not neg, 'd': False, 'u': True}[rnd]
        r = fl + 1 if away else fl
    v = r * ulp
    return -v if neg else v


def check_rounded(t, exact, p, rnd, shift=0):
    """concrete: raw mpf t must be the canonical correctly rounded value of Fraction `exact` * 2**shift"""
    if not canonical_concrete(t, p):
        return False, 'non-canonical result %r' % (t,)
    if is_special(t):
        return False, 'special result %r for finite exact value' % (t,)
    want = round_fraction(exact, p, rnd) if p else exact
    got = frac_of(t, shift)
    if got != want:
        return False, 'got %s, correctly rounded value is %s (exact %s, all times 2**%d; prec %s, rnd %s)' % (got, want, exact, shift, p, rnd)
    return True, ''
