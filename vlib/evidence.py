"""Evidence writer: everything in the file is measured on this run."""
import json
import os


def write_evidence(here, prop, tier, seed, mod, results, counts, wall, nviol, known_hits):
    funcs = {}
    cov = {}
    solver_s = 0.0
    queries = 0
    samples = []
    nontrivial = set()
    by_family = {}
    for r in results:
        st = r.get('stats') or {}
        solver_s += st.get('solver_s', 0)
        queries += st.get('queries', 0)
        for k, v in (st.get('funcs') or {}).items():
            funcs[k] = v
        for k, v in (st.get('cov') or {}).items():
            cov.setdefault(k, set()).update(v)
        fam = r['spec'].split(':')[1]
        d = by_family.setdefault(fam, dict(obligations=0, proved=0, violated=0, known=0, inconclusive=0, skipped=0, harness_error=0, wall_s=0.0))
        d['obligations'] += 1
        d[r['status']] = d.get(r['status'], 0) + 1
        d['wall_s'] = round(d['wall_s'] + r.get('wall_s', 0), 2)
        if r['status'] == 'proved' and r.get('witness') is not None:
            nontrivial.add(json.dumps([r['spec'], r['params']], sort_keys=True))
            if len(samples) < 6 and (len(samples) < 2 or fam not in [s['family'] for s in samples]):
                samples.append(dict(family=fam, params=r['params'], verdict='unsat (property holds for all symbolic contents of this shape)',
                                    reachability_witness={k: (v if not isinstance(v, int) or abs(v) < 1 << 64 else hex(v)) for k, v in r['witness'].items()},
                                    queries=st.get('queries'), solver_s=st.get('solver_s')))
    if not samples:
        for r in results[:3]:
            samples.append(dict(family=r['spec'].split(':')[1], params=r['params'], verdict=r['status'], detail=(r.get('detail') or '')[:200]))
    one_sided = sorted(k for k, v in cov.items() if len(v) == 1)
    ev = {
        'property_id': prop,
        'tier': tier,
        'seed': seed,
        'level': getattr(mod, 'LEVEL', 'other'),
        'coverage': {
            'explanation': mod.EXPLANATION,
            'obligations': len(results),
            'discharged': counts.get('proved', 0),
            'inconclusive': counts.get('inconclusive', 0) + counts.get('skipped', 0),
            'known_finding_hits': counts.get('known', 0),
            'evaluations': len(results),
            'distinct_nontrivial': len(nontrivial),
            'rule': 'one evaluation = one obligation (a fixed operand shape with symbolic contents) decided by an SMT query over the '
                    'symbolically executed /repo source; non-trivial = proved AND its reachability twin is satisfiable (the asserted '
                    'code was reached by at least one concrete input, recorded as witness); distinct by (family, parameters)',
            'samples': samples,
            'checker_cmd': './check %s --tier %s' % (prop, tier),
            'trusted_base': getattr(mod, 'TRUSTED', []),
            'functions_encoded': sorted(funcs.values(), key=lambda x: x['name']),
            'bounds': getattr(mod, 'BOUNDS', {}).get(tier, getattr(mod, 'BOUNDS', {})),
            'by_family': by_family,
            'solver': 'z3 (QF_BV), fresh solver per query',
            'solver_queries': queries,
            'solver_time_s': round(solver_s, 2),
            'branches_seen': len(cov),
            'branches_one_sided': one_sided[:200],
            'known_findings_reported': sorted(known_hits),
        },
        'assumptions': getattr(mod, 'ASSUMPTIONS', []),
        'wall_s': round(wall, 2),
        'violations': nviol,
    }
    if ev['level'] == 'translation_validation':
        ev['coverage']['programs'] = getattr(mod, 'PROGRAMS', len(by_family))
        ev['coverage']['disagreements_checked'] = nviol + counts.get('known', 0)
    os.makedirs(os.path.join(here, 'evidence'), exist_ok=True)
    with open(os.path.join(here, 'evidence', prop + '.json'), 'w') as f:
        json.dump(ev, f, indent=1, default=str)
