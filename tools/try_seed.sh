#!/bin/sh
# usage: tools/try_seed.sh <dir with patch.diff> <prop> [<prop> ...]   -- applies the patch to /repo, runs quick checks, reverts
D="$(cd "$1" && pwd)"; shift
cd /repo && git apply "$D/patch.diff" || { echo "patch does not apply"; exit 2; }
cd /verif
for P in "$@"; do
  ./check "$P" --tier quick --no-evidence 2>&1 | grep -E "VIOLATION|KNOWN-FINDING|HARNESS-ERROR|tier=quick: [0-9]+ obligations," | cut -c1-400 | head -8
  echo "   -> $P exit ${PIPESTATUS:-?}"
done
cd /repo && git checkout -- . && git status --short | head -3
