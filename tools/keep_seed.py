#!/usr/bin/env python3
"""keep a confirmed seeded change: tools/keep_seed.py <name> <caught-by...>"""
import json, os, shutil, sys
name = sys.argv[1]; caught = sys.argv[2:]
src = '/tmp/seed_out/' + name; dst = '/verif/seeded/' + name
os.makedirs(dst, exist_ok=True)
for f in ('patch.diff', 'demo.py'):
    shutil.copy(os.path.join(src, f), os.path.join(dst, f))
meta = json.load(open(os.path.join(src, 'meta.json')))
conf = open(os.path.join(src, 'confirm.txt')).read()
out = {
    'property': meta.get('property'), 'name': name, 'summary': meta.get('summary'), 'needs': meta.get('needs'), 'files': meta.get('files'),
    'author': 'independent sub-agent given only the property text and a scratch worktree',
    'confirmed_by_me': {
        'how': 'scratch worktree /tmp/wt/%s: git apply patch.diff; PYTHONPATH=<worktree> /venv/bin/python demo.py (pristine and changed); full pytest suite in the worktree with the change' % name,
        'demo_on_pristine_exit': 0 if 'demo on pristine exit: 0' in conf else None,
        'demo_with_change_exit': 1 if 'demo with change exit: 1' in conf else None,
        'test_suite_with_change': 'pytest exit 0 (337 passed, 2 xfailed)' if 'pytest exit: 0' in conf else 'FAILED',
    },
    'checks_run': 'tools/try_seed.sh seeded/%s <props>  (git -C /repo apply; ./check <prop> --tier quick; git -C /repo checkout -- .)' % name,
    'caught_by_quick': caught,
}
json.dump(out, open(os.path.join(dst, 'meta.json'), 'w'), indent=1)
print('kept', name, caught)
