#!/usr/bin/env python3
"""Regenerate MANIFEST.json from the check modules (claimed = has checks/cNN.py with PROPERTY)."""
import glob, importlib, json, os, re, sys
HERE = os.path.dirname(os.path.dirname(os.path.abspath(__file__)))
sys.path.insert(0, HERE); sys.path.insert(0, '/repo')
props = [json.loads(l) for l in open(os.path.join(HERE, 'properties.jsonl'))]
NA = json.load(open(os.path.join(HERE, 'tools', 'not_applicable.json')))
claimed = {}
for f in sorted(glob.glob(os.path.join(HERE, 'checks', 'c[0-9][0-9].py'))):
    mod = importlib.import_module('checks.' + os.path.basename(f)[:-3])
    claimed[mod.PROPERTY] = mod
checks = []
for pid, mod in sorted(claimed.items()):
    checks.append({
        'property_id': pid,
        'quick_cmd': './check %s --tier quick' % pid,
        'thorough_cmd': './check %s --tier thorough' % pid,
        'evidence_file': 'evidence/%s.json' % pid,
        'replay_cmd_template': './check --replay {path}',
        'engine': getattr(mod, 'ENGINE', 'pysym'),
        'level_claimed': {'category': getattr(mod, 'LEVEL', 'other'),
                          'text': getattr(mod, 'LEVEL_TEXT', None) or ('bounded symbolic verification: ' + mod.EXPLANATION[:900]),
                          'design_ref': 'DESIGN.md section 5 (%s), sections 2-4' % pid},
        'level_note': 'trusted base: ' + '; '.join(getattr(mod, 'TRUSTED', []))[:1500] + ' | assumptions: ' + '; '.join(getattr(mod, 'ASSUMPTIONS', []))[:800],
        'technique': getattr(mod, 'TECHNIQUE', 'symbolic execution of the Python source (pysym) + SMT (z3 QF_BV); shape-concrete / contents-symbolic obligations; native replay of counterexamples'),
    })
na = []
for p in props:
    if p['id'] in claimed:
        continue
    na.append({'property_id': p['id'], 'reason': NA.get(p['id'], 'check under construction in this round (planned in DESIGN.md section 5); not yet claimed')})
man = {
    'version': 1,
    'setup_cmd': './setup.sh',
    'hooks': {'guard': 'MPMATH_VERIF', 'enable': 'no hooks are needed: checks read the source of /repo\'s working tree and supply symbolic inputs themselves',
              'baseline_off_cmd': 'cd /repo && /venv/bin/python -m pytest -ra -q -p no:cacheprovider --timeout=900 --continue-on-collection-errors',
              'source_commits': [], 'add_only': True},
    'engines': [{'name': 'pysym', 'path': 'pysym/', 'serves_properties': sorted(claimed),
                 'kind_free_text': 'AST-level symbolic executor for the Python subset used by mpmath, run on the live /repo modules; QF_BV (z3) with per-value integer intervals; state merging; contracts for wide products/divmod/isqrt; abstract mode for precision-restoration obligations'}],
    'checks': checks,
    'notes': 'see DESIGN.md; known_findings.json lists genuine defects found (fixed ones suppress nothing); seeded/ holds independently written breaking changes and which checks catch them',
    'not_applicable': na,
}
json.dump(man, open(os.path.join(HERE, 'MANIFEST.json'), 'w'), indent=1)
print('claimed:', sorted(claimed), 'n/a:', len(na))
