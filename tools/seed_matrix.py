#!/usr/bin/env python3
"""Apply every seeded change to /repo in turn, run the quick checks that could see it, record which ones raise VIOLATION.
Writes seeded/<id>/meta.json (caught_by_quick, runs) and seeded/RESULTS.md.  /repo is restored after each seed."""
import json, os, subprocess, sys, time
HERE = os.path.dirname(os.path.dirname(os.path.abspath(__file__)))
EXTRA = {'C02': ['C01', 'C10'], 'C06': ['C10', 'C01'], 'C10': ['C06', 'C02'], 'C01': ['C40', 'C05'], 'C04': ['C10'], 'C08': ['C07'], 'C05': [], 'C14': ['C07'], 'C33': ['C17'], 'C17': ['C33'],
         'C15': ['C14'], 'C03': ['C14'], 'C16': ['C14']}
claimed = [c['property_id'] for c in json.load(open(os.path.join(HERE, 'MANIFEST.json')))['checks']]
only = sys.argv[1:]
rows = []
for name in sorted(os.listdir(os.path.join(HERE, 'seeded'))):
    d = os.path.join(HERE, 'seeded', name)
    if not os.path.isdir(d) or (only and name not in only):
        continue
    meta = json.load(open(os.path.join(d, 'meta.json')))
    prop = meta['property']
    props = [p for p in [prop] + EXTRA.get(prop, []) if p in claimed]
    r = subprocess.run(['git', '-C', '/repo', 'apply', os.path.join(d, 'patch.diff')], capture_output=True, text=True)
    if r.returncode != 0:
        rows.append((name, prop, 'PATCH DOES NOT APPLY', ''))
        continue
    caught, runs = [], {}
    try:
        for p in props:
            t0 = time.time()
            out = subprocess.run([os.path.join(HERE, 'check'), p, '--tier', 'quick', '--no-evidence'], capture_output=True, text=True, cwd=HERE)
            nv = out.stdout.count('VIOLATION property=%s' % p)
            runs[p] = dict(exit=out.returncode, violations=nv, wall_s=round(time.time() - t0, 1))
            if out.returncode == 1 and nv:
                caught.append(p)
    finally:
        subprocess.run(['git', '-C', '/repo', 'checkout', '--', '.'])
    meta['caught_by_quick'] = caught
    meta['quick_runs'] = runs
    json.dump(meta, open(os.path.join(d, 'meta.json'), 'w'), indent=1)
    rows.append((name, prop, ', '.join(caught) or 'NOT CAUGHT', json.dumps(runs)))
    print(rows[-1], flush=True)
if not only:
    with open(os.path.join(HERE, 'seeded', 'RESULTS.md'), 'w') as f:
        f.write('# Seeded changes vs quick checks\n\n| seed | property | caught by (quick tier) | runs |\n|---|---|---|---|\n')
        for r in rows:
            f.write('| %s | %s | %s | `%s` |\n' % r)
