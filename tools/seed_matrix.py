#!/usr/bin/env python3
"""Apply every seeded change to a scratch worktree of /repo's HEAD in turn (never to /repo itself), run the quick checks that
could see it there (VERIF_REPO=<worktree>), record which ones raise VIOLATION.  Writes seeded/<id>/meta.json (caught_by_quick,
runs) and seeded/RESULTS.md.  The worktree is removed after each seed.  A seed whose check run already stopped at the first
catching property skips the remaining neighbour properties unless --all-props is given."""
import json, os, subprocess, sys, time
HERE = os.path.dirname(os.path.dirname(os.path.abspath(__file__)))
EXTRA = {'C02': ['C01', 'C10'], 'C06': ['C10', 'C01'], 'C10': ['C06', 'C02'], 'C01': ['C40', 'C05'], 'C04': ['C10'], 'C08': ['C07'], 'C05': [], 'C14': ['C07'], 'C33': ['C17'], 'C17': ['C33'],
         'C15': ['C14'], 'C03': ['C14'], 'C16': ['C14']}
claimed = [c['property_id'] for c in json.load(open(os.path.join(HERE, 'MANIFEST.json')))['checks']]
allprops = '--all-props' in sys.argv
only = [a for a in sys.argv[1:] if not a.startswith('--')]
rows = []
WT = '/tmp/wt/matrix'
head = subprocess.check_output(['git', '-C', '/repo', 'rev-parse', '--short', 'HEAD'], text=True).strip()
for name in sorted(os.listdir(os.path.join(HERE, 'seeded'))):
    d = os.path.join(HERE, 'seeded', name)
    if not os.path.isdir(d) or (only and name not in only):
        continue
    meta = json.load(open(os.path.join(d, 'meta.json')))
    prop = meta['property']
    props = [p for p in [prop] + EXTRA.get(prop, []) if p in claimed]
    subprocess.run(['git', '-C', '/repo', 'worktree', 'remove', '--force', WT], capture_output=True)
    subprocess.run(['git', '-C', '/repo', 'worktree', 'add', '--detach', WT, 'HEAD'], capture_output=True)
    r = subprocess.run(['git', '-C', WT, 'apply', os.path.join(d, 'patch.diff')], capture_output=True, text=True)
    if r.returncode != 0:
        r = subprocess.run(['git', '-C', WT, 'apply', '-3', os.path.join(d, 'patch.diff')], capture_output=True, text=True)
    if r.returncode != 0:
        rows.append((name, prop, 'PATCH DOES NOT APPLY to %s' % head, ''))
        print(rows[-1], flush=True)
        subprocess.run(['git', '-C', '/repo', 'worktree', 'remove', '--force', WT], capture_output=True)
        continue
    caught, runs = [], {}
    try:
        for p in props:
            if caught and not allprops and p != prop:
                continue
            t0 = time.time()
            out = subprocess.run([os.path.join(HERE, 'check'), p, '--tier', 'quick', '--no-evidence'], capture_output=True, text=True, cwd=HERE,
                                 env=dict(os.environ, VERIF_REPO=WT))
            nv = out.stdout.count('VIOLATION property=%s' % p)
            runs[p] = dict(exit=out.returncode, violations=nv, wall_s=round(time.time() - t0, 1))
            if out.returncode == 1 and nv:
                caught.append(p)
    finally:
        subprocess.run(['git', '-C', '/repo', 'worktree', 'remove', '--force', WT], capture_output=True)
    meta['caught_by_quick'] = caught
    meta['quick_runs'] = runs
    json.dump(meta, open(os.path.join(d, 'meta.json'), 'w'), indent=1)
    rows.append((name, prop, ', '.join(caught) or 'NOT CAUGHT', json.dumps(runs)))
    print(rows[-1], flush=True)
if not only:
    with open(os.path.join(HERE, 'seeded', 'RESULTS.md'), 'w') as f:
        f.write('# Seeded changes vs quick checks (applied to a scratch worktree of /repo %s)\n\n| seed | property | caught by (quick tier) | runs |\n|---|---|---|---|\n' % head)
        for r in rows:
            f.write('| %s | %s | %s | `%s` |\n' % r)
