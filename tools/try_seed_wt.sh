#!/bin/sh
# usage: tools/try_seed_wt.sh <name> <prop> [<prop> ...]  -- runs the quick checks against the scratch worktree /tmp/wt/<name>
# (which has the seeded change applied) instead of /repo; used while something else is running on /repo
N="$1"; shift
cd /verif
for P in "$@"; do
  VERIF_REPO=/tmp/wt/$N ./check "$P" --tier quick --no-evidence 2>&1 | grep -E "VIOLATION|KNOWN-FINDING|HARNESS-ERROR|tier=quick: [0-9]+ obligations," | cut -c1-400 | head -6
done
