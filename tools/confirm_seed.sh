#!/bin/sh
# usage: tools/confirm_seed.sh <name>  (worktree /tmp/wt/<name>, deliverables /tmp/seed_out/<name>) -> writes /tmp/seed_out/<name>/confirm.txt
N="$1"; WT=/tmp/wt/$N; OUT=/tmp/seed_out/$N
{
cd $WT && git checkout -q -- . && git status --short | grep -v '^??' | head -2
git apply --check $OUT/patch.diff && echo "patch applies: yes"
PYTHONPATH=$WT /venv/bin/python $OUT/demo.py >/dev/null 2>&1; echo "demo on pristine exit: $?"
git apply $OUT/patch.diff
PYTHONPATH=$WT /venv/bin/python $OUT/demo.py >/dev/null 2>&1; echo "demo with change exit: $?"
cd $WT && /venv/bin/python -c "import mpmath; print('mpmath from', mpmath.__file__)"
/venv/bin/python -m pytest -q -p no:cacheprovider --timeout=900 > /tmp/seed_out/$N/pytest.log 2>&1; echo "pytest exit: $?"; tail -1 /tmp/seed_out/$N/pytest.log
} > $OUT/confirm.txt 2>&1
