#!/usr/bin/env python
"""Driver: ./check <property id> [--tier quick|thorough]   |   ./check --replay <file>

Exit codes: 0 property held on everything explored (or only listed known findings seen);
1 replayed violation (prints 'VIOLATION property=<id> replay=<path>'); 3 harness error
(including a solver counterexample that does not reproduce on the real code).
"""
import argparse
import importlib
import json
import os
import subprocess
import sys
import time

HERE = os.path.dirname(os.path.abspath(__file__))
sys.path.insert(0, HERE)
REPO = os.environ.get('VERIF_REPO', '/repo')
sys.path.insert(0, REPO)
os.environ.setdefault('MPMATH_NOGMPY', '1')
sys.setrecursionlimit(100000)
sys.set_int_max_str_digits(0)


def load_known():
    p = os.path.join(HERE, 'known_findings.json')
    if not os.path.exists(p):
        return []
    return json.load(open(p)).get('findings', [])


def finding_covers(f, prop, spec, params, model):
    if f.get('status') != 'open':
        return False
    if prop not in f.get('properties', []):
        return False
    if spec not in f.get('specs', []):
        return False
    expr = f.get('when', 'True')
    try:
        return bool(eval(expr, {'__builtins__': {'abs': abs, 'max': max, 'min': min, 'len': len}}, {'p': params, 'm': model or {}}))
    except Exception:
        return False


def safe_replay(spec, params, model, timeout_s=60):
    """native replay of a solver model in a forked child with a deadline: a changed tree may make the real code loop on the
    counterexample input; that must not hang the check (reported as an unconfirmed alarm = inconclusive)"""
    import multiprocessing as mp_
    from vlib.runner import resolve
    ctx = mp_.get_context('fork')
    rd, wr = ctx.Pipe(duplex=False)

    def child():
        try:
            r = resolve(spec + '_concrete')(params, model)
            wr.send(('ok', r))
        except BaseException as e:
            wr.send(('exc', repr(e)))
        finally:
            wr.close()
    pr = ctx.Process(target=child)
    pr.start()
    if rd.poll(timeout_s):
        try:
            kind, val = rd.recv()
        except EOFError:
            kind, val = 'exc', 'replay process died'
    else:
        kind, val = 'timeout', None
    if pr.is_alive():
        pr.terminate()
    pr.join(5)
    if kind == 'ok':
        return val
    if kind == 'timeout':
        return None, 'UNCONFIRMED: native replay of the solver model did not finish within %ds' % timeout_s
    raise RuntimeError(val)


def do_replay(path):
    rec = json.load(open(path))
    from vlib.runner import resolve
    import mpmath
    fn = resolve(rec['spec'] + '_concrete')
    ok, detail = fn(rec['params'], rec['model'])
    print('replay of %s on %s: %s' % (rec['spec'], os.path.dirname(mpmath.__file__), 'property holds on this input' if ok else 'VIOLATED: ' + detail))
    return 0 if ok else 1


def main():
    ap = argparse.ArgumentParser()
    ap.add_argument('prop', nargs='?')
    ap.add_argument('--tier', default=os.environ.get('VERIF_TIER', 'quick'))
    ap.add_argument('--replay')
    ap.add_argument('--workers', type=int, default=int(os.environ.get('VERIF_WORKERS', '0')) or None)
    ap.add_argument('--only', help='substring filter on obligation spec/params (debug)')
    ap.add_argument('--no-evidence', action='store_true')
    ap.add_argument('-v', action='store_true')
    a = ap.parse_args()
    if a.replay:
        sys.exit(do_replay(a.replay))
    prop = a.prop.upper()
    seed = int(os.environ.get('VERIF_SEED', '0'))
    tier = a.tier
    t0 = time.time()
    import mpmath
    if not os.path.abspath(mpmath.__file__).startswith(os.path.abspath(REPO)):
        print('HARNESS-ERROR mpmath imported from %s, not %s' % (mpmath.__file__, REPO))
        sys.exit(3)
    mod = importlib.import_module('checks.' + prop.lower())
    obls = mod.obligations(tier, seed)
    if tier != 'quick':
        # the obligations of the quick tier first (known to be cheap), the deeper ones afterwards: when the tier budget runs out,
        # what is skipped is the expensive tail, not the basics
        def key(o):
            return (o[0], json.dumps({k: v for k, v in o[1].items() if not k.startswith('_')}, sort_keys=True, default=str))
        try:
            qk = {key(o) for o in mod.obligations('quick', seed)}
            def cost(o):
                # crude size estimate of a shape: the sum of its integer parameters (bit lengths, offsets, precisions)
                tot = 0
                for k, v in o[1].items():
                    if k.startswith('_'):
                        continue
                    vs = v if isinstance(v, (list, tuple)) else [v]
                    for x in vs:
                        if isinstance(x, int) and not isinstance(x, bool):
                            tot += abs(x)
                        elif isinstance(x, (list, tuple)):
                            tot += sum(abs(y) for y in x if isinstance(y, int) and not isinstance(y, bool))
                return tot
            rest = sorted([o for o in obls if key(o) not in qk], key=cost)
            obls = [o for o in obls if key(o) in qk] + rest
        except Exception:
            pass
    if a.only:
        obls = [o for o in obls if a.only in (o[0] + json.dumps(o[1], sort_keys=True))]
    budget = getattr(mod, 'BUDGET', {}).get(tier, {})
    from vlib.runner import run_all, resolve
    shown = [0]

    def progress(idx, res):
        if a.v or res['status'] not in ('proved',):
            print('  [%s] %s %s %s %.1fs %s' % (res['status'], res['spec'].split(':')[1], json.dumps(res['params'], sort_keys=True),
                                               '', res.get('wall_s', 0), (res.get('detail') or '')[:300]), flush=True)
    print('%s tier=%s: %d obligations on %s' % (prop, tier, len(obls), os.path.dirname(mpmath.__file__)), flush=True)
    results = run_all(obls, nworkers=a.workers, ob_deadline_s=budget.get('ob_deadline_s', 150),
                      total_deadline_s=budget.get('total_s', 170 if tier == 'quick' else 1500), progress=progress)
    known = load_known()
    counts = dict(proved=0, violated=0, inconclusive=0, skipped=0, harness_error=0)
    violations = []
    known_hits = {}
    harness_errors = []
    os.makedirs(os.path.join(HERE, 'evidence', 'replays'), exist_ok=True)
    pending_weak = []
    t_replay0 = time.time()
    replay_budget_s = 420 if a.tier == 'quick' else 900
    for res in results:
        st = res['status']
        counts[st] = counts.get(st, 0) + 1
        if st == 'harness_error':
            harness_errors.append(res)
        if st != 'violated':
            continue
        # replay on the real code, natively, before believing the solver
        if time.time() - t_replay0 > replay_budget_s:
            ok, detail = None, 'UNCONFIRMED: replay budget of %ds for this run exhausted (solver counterexample not yet confirmed on the real code)' % replay_budget_s
        else:
            try:
                ok, detail = safe_replay(res['spec'], res['params'], res['model'])
            except Exception as e:
                ok, detail = None, 'replay crashed: %r' % (e,)
        if ok is None and str(detail).startswith('UNCONFIRMED'):
            # abstract alarm (stub-based obligation) that the dynamic replay could not reproduce: inconclusive, never a violation
            res['status'] = 'inconclusive'
            res['detail'] = detail
            counts['violated'] -= 1
            counts['inconclusive'] += 1
            continue
        if ok is None or ok:
            res['status'] = 'harness_error'
            res['detail'] = 'solver counterexample does not reproduce on real code (%s) model=%s' % (detail, json.dumps(res['model'])[:400])
            counts['violated'] -= 1
            counts['harness_error'] += 1
            harness_errors.append(res)
            continue
        res['replay_detail'] = detail
        cover = [f for f in known if finding_covers(f, prop, res['spec'], res['params'], res['model'])]
        if cover and cover[0].get('weak_rerun'):
            pending_weak.append((res, cover[0]))
            continue
        if cover:
            known_hits.setdefault(cover[0]['id'], []).append(res)
            counts['violated'] -= 1
            counts['known'] = counts.get('known', 0) + 1
            res['status'] = 'known'
            continue
        violations.append(res)
    if pending_weak:
        # a finding excuses only its own behaviour: the obligations are re-run (in the pool, with deadlines) with the oracle weakened
        # to exactly the recorded defect; anything else that is wrong in the same region is still a violation
        weak = run_all([(r['spec'], dict(r['params'], _known=f['id'])) for r, f in pending_weak], nworkers=a.workers,
                       ob_deadline_s=budget.get('ob_deadline_s', 150), total_deadline_s=budget.get('total_s', 170))
        for (res, f), r2 in zip(pending_weak, weak):
            if r2['status'] == 'violated':
                try:
                    ok2, detail2 = safe_replay(res['spec'], r2['params'], r2['model'])
                except Exception as e:
                    ok2, detail2 = None, repr(e)
                if ok2 is False:
                    r2['replay_detail'] = detail2
                    violations.append(r2)
                    continue
            elif r2['status'] != 'proved':
                res['weak_rerun'] = r2['status']
            known_hits.setdefault(f['id'], []).append(res)
            counts['violated'] -= 1
            counts['known'] = counts.get('known', 0) + 1
            res['status'] = 'known'
    vio2 = []
    for i, res in enumerate(violations):
        name = '%s_%s_%d.json' % (prop, res['spec'].split(':')[1], i)
        path = os.path.join(HERE, 'evidence', 'replays', name)
        json.dump(dict(property=prop, spec=res['spec'], params=res['params'], model=res['model'], detail=res['replay_detail']), open(path, 'w'), indent=1)
        vio2.append((res, path))
    violations = vio2
    # a listed finding is reported when its recorded witness still fails on the real code
    # or an obligation hit the region it covers; a finding whose witness passes prints nothing
    for f in known:
        if f.get('status') != 'open' or prop not in f.get('properties', []):
            continue
        fails, detail = False, ''
        w = f.get('witness')
        if w:
            try:
                ok, detail = safe_replay(w['spec'], w['params'], w['model'])
                fails = ok is False
            except Exception as e:
                detail = 'witness replay crashed %r' % (e,)
        if fails or f['id'] in known_hits:
            known_hits.setdefault(f['id'], [])
            print('KNOWN-FINDING: property=%s %s [%s] %s' % (prop, f['what'], f['id'], detail[:200]))
    wall = time.time() - t0
    for res, path in violations:
        print('VIOLATION property=%s replay=%s' % (prop, path))
        print('   %s %s: %s' % (res['spec'], json.dumps(res['params'], sort_keys=True), res['replay_detail'][:400]))
    for res in results:
        if res['status'] in ('inconclusive', 'skipped'):
            print('INCONCLUSIVE %s %s %s' % (res['spec'].split(':')[1], json.dumps(res['params'], sort_keys=True), (res.get('detail') or '')[:200]))
    for res in harness_errors:
        print('HARNESS-ERROR %s %s %s' % (res['spec'], json.dumps(res['params'], sort_keys=True), (res.get('detail') or '')[:1500]))
    if not a.no_evidence:
        from vlib.evidence import write_evidence
        write_evidence(HERE, prop, tier, seed, mod, results, counts, wall, len(violations), known_hits)
    print('%s tier=%s: %d obligations, proved=%d violated=%d known=%d inconclusive=%d skipped=%d harness_error=%d wall=%.1fs' % (
        prop, tier, len(results), counts['proved'], len(violations), counts.get('known', 0), counts['inconclusive'], counts['skipped'],
        counts['harness_error'], wall))
    if violations:
        sys.exit(1)
    if harness_errors:
        sys.exit(3)
    sys.exit(0)


if __name__ == '__main__':
    main()
