"""Symbolic values and bit-vector arithmetic with interval bookkeeping.

Python ints do not wrap; bit-vectors do.  Every SInt therefore carries a conservative
integer interval [lo, hi]; creating a term whose interval does not fit into the current
width W raises WidthError, so no BV operation inside an accepted query can overflow and
the QF_BV semantics coincide with Python's unbounded integer semantics.
"""
import operator
import z3


class Unsupported(Exception):
    """The interpreted code used something outside the supported subset / models.
    Reported as INCONCLUSIVE, never as pass or violation."""


class WidthError(Unsupported):
    """A value does not provably fit into the current bit-vector width."""


class HarnessError(Exception):
    """Internal error of the checking machinery (exit code 3)."""


class G:
    """Per-obligation global solver context (one obligation at a time per process)."""
    W = 64
    SIDE = []          # side facts introduced by contracts (uninterpreted products, ...)
    mul_cache = {}
    nfresh = 0
    CUR = None         # (engine, path condition) of the operation being evaluated
    MUL_PRECISE_BITS = 24
    stats = {}
    ABSTRACT = False   # abstract mode: unmergeable values join to Unknown


def reset(W, mul_precise_bits=24):
    G.W = W
    G.SIDE = []
    G.mul_cache = {}
    G.nfresh = 0
    G.CUR = None
    G.MUL_PRECISE_BITS = mul_precise_bits
    G.stats = {}
    G.ABSTRACT = False


def fresh_name(prefix):
    G.nfresh += 1
    return '%s!%d' % (prefix, G.nfresh)


class SInt:
    __slots__ = ('t', 'lo', 'hi')

    def __init__(self, t, lo, hi):
        self.t = t
        self.lo = lo
        self.hi = hi

    def __repr__(self):
        return 'SInt[%s..%s]' % (self.lo if abs(self.lo) < 1 << 40 else '%db' % self.lo.bit_length(),
                                 self.hi if abs(self.hi) < 1 << 40 else '%db' % self.hi.bit_length())

    def __hash__(self):
        return id(self)


class SBool:
    __slots__ = ('t',)

    def __init__(self, t):
        self.t = t

    def __repr__(self):
        return 'SBool'

    def __hash__(self):
        return id(self)


class Unknown:
    """Abstract-mode value: any Python object.  tag: optional SInt/int ghost (C33).
    When an Unknown is used in integer arithmetic/comparison it is consistently viewed as one fresh symbolic integer."""
    __slots__ = ('why', 'tag', '_int')

    def __init__(self, why='?', tag=None):
        self.why = why
        self.tag = tag
        self._int = None

    def as_int(self):
        if self._int is None:
            lim = 1 << min(44, G.W - 6)
            self._int = fresh_int('unk', -lim, lim)
        return self._int

    def __repr__(self):
        return 'Unknown(%s)' % self.why


class SStr:
    """A string of concrete length whose characters are concrete 1-char strs or symbolic decimal digits (SInt/int 0..9)."""
    __slots__ = ('chars',)

    def __init__(self, chars):
        self.chars = list(chars)

    def __len__(self):
        return len(self.chars)

    def __repr__(self):
        return 'SStr(%s)' % ''.join(c if isinstance(c, str) else '?' for c in self.chars)

    def sliced(self, sl):
        return SStr(self.chars[sl])


def is_sym(v):
    return isinstance(v, (SInt, SBool))


def has_sym(v, depth=0):
    if isinstance(v, (SInt, SBool, SStr)):
        return True
    if isinstance(v, (tuple, list)) and depth < 6:
        for x in v:
            if has_sym(x, depth + 1):
                return True
    if isinstance(v, dict) and depth < 6:
        for x in v.values():
            if has_sym(x, depth + 1):
                return True
    return False


def has_unknown(v, depth=0):
    if isinstance(v, Unknown):
        return True
    if isinstance(v, (tuple, list)) and depth < 6:
        return any(has_unknown(x, depth + 1) for x in v)
    if isinstance(v, dict) and depth < 6:
        return any(has_unknown(x, depth + 1) for x in v.values())
    return False


def bvv(n):
    return z3.BitVecVal(n, G.W)


def fits(lo, hi):
    return lo >= -(1 << (G.W - 1)) and hi < (1 << (G.W - 1))


def zt(v):
    """z3 bit-vector term of an int-like value."""
    if isinstance(v, SInt):
        return v.t
    if isinstance(v, SBool):
        return z3.If(v.t, bvv(1), bvv(0))
    if isinstance(v, bool):
        return bvv(int(v))
    if isinstance(v, int):
        if not fits(v, v):
            raise WidthError('constant of %d bits exceeds W=%d' % (v.bit_length(), G.W))
        return bvv(v)
    raise Unsupported('not an integer value: %r' % (type(v).__name__,))


def mk_int(t, lo, hi):
    if lo > hi:
        # infeasible value (dead path); keep a harmless concrete
        lo = hi
    if not fits(lo, hi):
        raise WidthError('interval [%d bits, %d bits] exceeds W=%d' % (lo.bit_length(), hi.bit_length(), G.W))
    if lo == hi:
        return lo
    t = z3.simplify(t)
    if z3.is_bv_value(t):
        return t.as_signed_long()
    return SInt(t, lo, hi)


def mk_bool(t):
    t = z3.simplify(t)
    if z3.is_true(t):
        return True
    if z3.is_false(t):
        return False
    return SBool(t)


def fresh_int(prefix, lo, hi):
    v = z3.BitVec(fresh_name(prefix), G.W)
    if not fits(lo, hi):
        raise WidthError('fresh int interval exceeds W')
    G.SIDE.append(z3.And(v >= bvv(lo), v <= bvv(hi)))
    return SInt(v, lo, hi)


def fresh_bool(prefix):
    return SBool(z3.Bool(fresh_name(prefix)))


def zb(v):
    """z3 Bool of the Python truth value of v."""
    if isinstance(v, SBool):
        return v.t
    if isinstance(v, SInt):
        return v.t != bvv(0)
    if isinstance(v, (tuple, list, dict, str)):
        return z3.BoolVal(len(v) > 0)
    if has_sym(v):
        raise Unsupported('truth of %r' % (v,))
    return z3.BoolVal(bool(v))


def truth(v):
    """Python truth value -> bool or SBool (no __bool__ dispatch; engine does that)."""
    if isinstance(v, (SInt, SBool)):
        return mk_bool(zb(v))
    if isinstance(v, (tuple, list, dict, str)):
        return len(v) > 0
    return bool(v)


def bounds(v):
    if isinstance(v, SInt):
        return v.lo, v.hi
    if isinstance(v, SBool):
        return 0, 1
    return int(v), int(v)


def _mulb(a, b):
    c = [a[0] * b[0], a[0] * b[1], a[1] * b[0], a[1] * b[1]]
    return min(c), max(c)


def _feasible_neg(v):
    """Is v < 0 feasible under the current path condition?  (interval tightening)"""
    if G.CUR is None:
        return True
    eng, pc = G.CUR
    return eng.feasible(pc, zt(v) < bvv(0))


def _narrow(t, k, signed_):
    """low k bits of a W-bit term (value known to fit)"""
    return z3.Extract(k - 1, 0, t)


def narrow_mul(at, bt, abnd, bbnd):
    """a*b computed at the narrowest sufficient width and extended back to W (bit-blasting cost ~ width^2)"""
    (alo, ahi), (blo, bhi) = abnd, bbnd
    sg = alo < 0 or blo < 0
    ka = max(abs(alo), abs(ahi)).bit_length() + (1 if sg else 0)
    kb = max(abs(blo), abs(bhi)).bit_length() + (1 if sg else 0)
    n = ka + kb
    if n >= G.W or ka == 0 or kb == 0:
        return at * bt
    ext = z3.SignExt if sg else z3.ZeroExt
    pa = ext(n - ka, _narrow(at, ka, sg))
    pb = ext(n - kb, _narrow(bt, kb, sg))
    return ext(G.W - n, pa * pb)


def narrow_udivrem(at, bt, ahi, bhi, want_div):
    n = max(ahi.bit_length(), bhi.bit_length(), 1)
    if n >= G.W:
        return z3.UDiv(at, bt) if want_div else z3.URem(at, bt)
    a, b = z3.Extract(n - 1, 0, at), z3.Extract(n - 1, 0, bt)
    r = z3.UDiv(a, b) if want_div else z3.URem(a, b)
    return z3.ZeroExt(G.W - n, r)


def sym_mul(a, b):
    (alo, ahi), (blo, bhi) = bounds(a), bounds(b)
    lo, hi = _mulb((alo, ahi), (blo, bhi))
    if not (is_sym(a) and is_sym(b)):
        if not fits(lo, hi):
            raise WidthError('product interval exceeds W=%d' % G.W)
        return mk_int(narrow_mul(zt(a), zt(b), (alo, ahi), (blo, bhi)), lo, hi)
    abits = max(abs(alo), abs(ahi)).bit_length()
    bbits = max(abs(blo), abs(bhi)).bit_length()
    if abits + bbits <= G.MUL_PRECISE_BITS:
        if not fits(lo, hi):
            raise WidthError('product interval exceeds W=%d' % G.W)
        return mk_int(narrow_mul(zt(a), zt(b), (alo, ahi), (blo, bhi)), lo, hi)
    if not fits(lo, hi):
        raise WidthError('product interval exceeds W=%d' % G.W)
    at, bt = zt(a), zt(b)
    ka, kb = at.get_id(), bt.get_id()
    key = (min(ka, kb), max(ka, kb))
    if key not in G.mul_cache:
        p = z3.BitVec(fresh_name('prod'), G.W)
        G.SIDE.append(z3.And(p >= bvv(lo), p <= bvv(hi)))
        # parity, zero and sign facts of an integer product
        G.SIDE.append(z3.Extract(0, 0, p) == (z3.Extract(0, 0, at) & z3.Extract(0, 0, bt)))
        G.SIDE.append((p == bvv(0)) == z3.Or(at == bvv(0), bt == bvv(0)))
        if alo >= 0 and blo >= 0:
            # McCormick-style bounds with power-of-two multipliers (shifts only: cheap to bit-blast):
            # a >= 2^i  =>  a*b >= 2^i * b ;  a < 2^j  =>  a*b < 2^j * b (b > 0)
            for (xlo, xhi), t in (((alo, ahi), bt), ((blo, bhi), at)):
                if xlo > 0:
                    G.SIDE.append(z3.UGE(p, t << (xlo.bit_length() - 1)))
                if fits(0, (1 << xhi.bit_length()) * max(ahi, bhi)):
                    G.SIDE.append(z3.ULE(p, t << xhi.bit_length()))
        if alo < 0 or blo < 0:
            G.SIDE.append(z3.Implies(z3.And(at != bvv(0), bt != bvv(0)), (p < bvv(0)) == z3.Xor(at < bvv(0), bt < bvv(0))))
        G.mul_cache[key] = (p, at, bt)   # keep operand terms alive so ids stay unique
        G.stats['abstract_products'] = G.stats.get('abstract_products', 0) + 1
    return SInt(G.mul_cache[key][0], lo, hi)


def product_term(a, b):
    """The term the engine uses for a*b (so an oracle can talk about the same product)."""
    return sym_mul(a, b)


def binop(op, a, b):
    """Integer arithmetic on int/SInt/SBool operands."""
    if isinstance(a, SBool):
        a = mk_int(zt(a), 0, 1)
    if isinstance(b, SBool):
        b = mk_int(zt(b), 0, 1)
    if not is_sym(a) and not is_sym(b):
        return op(a, b)
    if not isinstance(a, (SInt, int)) or not isinstance(b, (SInt, int)):
        raise Unsupported('binary op on %s, %s' % (type(a).__name__, type(b).__name__))
    (alo, ahi), (blo, bhi) = bounds(a), bounds(b)
    if op in (operator.and_, operator.xor, operator.or_, operator.floordiv, operator.mod, operator.rshift):
        if alo < 0 and is_sym(a) and not _feasible_neg(a):
            alo = 0
            ahi = max(ahi, 0)
            a = SInt(a.t, alo, ahi)
        if blo < 0 and is_sym(b) and not _feasible_neg(b):
            blo = 0
            bhi = max(bhi, 0)
            b = SInt(b.t, blo, bhi)
    if op is operator.add:
        return mk_int(zt(a) + zt(b), alo + blo, ahi + bhi)
    if op is operator.sub:
        return mk_int(zt(a) - zt(b), alo - bhi, ahi - blo)
    if op is operator.mul:
        return sym_mul(a, b)
    if op is operator.lshift or op is operator.rshift:
        if not is_sym(a) and a == 0:
            return 0
        if blo < 0:
            if _feasible_neg(b):
                raise Unsupported('possibly negative shift count')
            blo = 0
            bhi = max(bhi, 0)
        if op is operator.lshift:
            if bhi > 4 * G.W:
                # tighten by solver: is b > W feasible at all?
                eng, pc = G.CUR
                if eng.feasible(pc, zt(b) > bvv(G.W)):
                    raise WidthError('left shift count may exceed W')
                bhi = G.W
            lo = min(alo << blo, alo << bhi)
            hi = max(ahi << blo, ahi << bhi)
            if not fits(lo, hi) and G.CUR is not None and is_sym(b):
                # interval too coarse: let the solver bound the count
                eng, pc = G.CUR
                k = bhi
                # binary search the largest feasible count
                lo_k, hi_k = blo, bhi
                while lo_k < hi_k:
                    mid = (lo_k + hi_k) // 2
                    if eng.feasible(pc, zt(b) > bvv(mid)):
                        lo_k = mid + 1
                    else:
                        hi_k = mid
                bhi = lo_k
                lo = min(alo << blo, alo << bhi)
                hi = max(ahi << blo, ahi << bhi)
            return mk_int(zt(a) << zt(b), lo, hi)
        # arithmetic right shift; SMT-LIB bvashr with count >= W gives the sign fill,
        # which is what Python's >> gives for a value that fits in W bits
        bt = bvv(min(b, G.W - 1)) if isinstance(b, int) else zt(b)
        lo = min(alo >> blo, alo >> bhi)
        hi = max(ahi >> blo, ahi >> bhi)
        return mk_int(zt(a) >> bt, lo, hi)
    if op is operator.floordiv or op is operator.mod:
        if bhi < 0:
            # Python floor semantics with a negative divisor: a // b == (-a) // (-b), a % b == -((-a) % (-b))
            r = binop(op, neg(a), neg(b))
            return r if op is operator.floordiv else neg(r)
        if is_sym(b):
            if blo <= 0:
                if blo == 0 and bhi > 0 and G.CUR is not None and not G.CUR[0].feasible(G.CUR[1], zt(b) == bvv(0)):
                    blo = 1
                else:
                    raise Unsupported('symbolic divisor not provably positive')
            if alo >= 0:
                if op is operator.floordiv:
                    return mk_int(narrow_udivrem(zt(a), zt(b), ahi, bhi, True), alo // bhi, ahi // blo)
                return mk_int(narrow_udivrem(zt(a), zt(b), ahi, bhi, False), 0, min(ahi, bhi - 1))
            # floor semantics for negative dividend, positive divisor
            at, bt = zt(a), zt(b)
            r = z3.SRem(at, bt)
            r = z3.If(r < 0, r + bt, r)
            if op is operator.mod:
                return mk_int(r, 0, bhi - 1)
            q = (at - r) / bt
            return mk_int(q, min(alo // blo, alo // bhi), max(ahi // blo, ahi // bhi, 0))
        if b == 0:
            raise ZeroDivisionError('integer division or modulo by zero')
        if b < 0:
            raise Unsupported('negative constant divisor')
        if b & (b - 1) == 0:
            k = b.bit_length() - 1
            if op is operator.floordiv:
                return mk_int(zt(a) >> k, alo >> k, ahi >> k)
            if not fits(b, b):
                # x mod 2^k with 2^k beyond W: value itself if nonneg
                if alo >= 0:
                    return a
                raise WidthError('modulus exceeds W')
            return mk_int(zt(a) & bvv(b - 1), 0, b - 1)
        if not fits(b, b):
            if alo >= 0 and ahi < b:
                return a if op is operator.mod else 0
            raise WidthError('divisor exceeds W')
        if alo >= 0:
            if op is operator.floordiv:
                return mk_int(narrow_udivrem(zt(a), bvv(b), ahi, b, True), alo // b, ahi // b)
            return mk_int(narrow_udivrem(zt(a), bvv(b), ahi, b, False), 0, min(ahi, b - 1))
        at = zt(a)
        r = z3.SRem(at, bvv(b))
        r = z3.If(r < 0, r + bvv(b), r)
        if op is operator.mod:
            return mk_int(r, 0, b - 1)
        return mk_int((at - r) / bvv(b), alo // b, ahi // b)
    if op is operator.and_:
        if not is_sym(b) and b >= 0:
            return mk_int(zt(a) & bvv(b), 0, b if alo < 0 else min(b, ahi))
        if not is_sym(a) and a >= 0:
            return mk_int(zt(a) & zt(b), 0, a if blo < 0 else min(a, bhi))
        if alo >= 0 and blo >= 0:
            return mk_int(zt(a) & zt(b), 0, min(ahi, bhi))
        if alo >= 0:
            return mk_int(zt(a) & zt(b), 0, ahi)
        if blo >= 0:
            return mk_int(zt(a) & zt(b), 0, bhi)
        raise Unsupported('& with two possibly negative operands')
    if op is operator.xor or op is operator.or_:
        if alo >= 0 and blo >= 0:
            k = max(ahi, bhi).bit_length()
            t = (zt(a) ^ zt(b)) if op is operator.xor else (zt(a) | zt(b))
            return mk_int(t, 0, (1 << k) - 1)
        raise Unsupported('^ or | with possibly negative operand')
    if op is operator.pow:
        if is_sym(b):
            if is_sym(a) or bhi - blo > 16 or blo < 0:
                raise Unsupported('pow with symbolic exponent')
            bt = zt(b)
            res = None
            vals = [a ** k for k in range(blo, bhi + 1)]
            for k in range(blo, bhi + 1):
                res = bvv(a ** k) if res is None else z3.If(bt == bvv(k), bvv(a ** k), res)
            return mk_int(res, min(vals), max(vals))
        if b < 0:
            raise Unsupported('negative integer power')
        res = 1
        for _ in range(b):
            res = binop(operator.mul, res, a)
        return res
    if op is operator.truediv:
        raise Unsupported('true division of symbolic ints (float result)')
    raise Unsupported('binop %r' % (op,))


def neg(v):
    if isinstance(v, SBool):
        v = mk_int(zt(v), 0, 1)
    if isinstance(v, SInt):
        return mk_int(-v.t, -v.hi, -v.lo)
    return -v


def invert(v):
    if isinstance(v, SBool):
        v = mk_int(zt(v), 0, 1)
    if isinstance(v, SInt):
        return mk_int(~v.t, -v.hi - 1, -v.lo - 1)
    return ~v


def not_(v):
    if isinstance(v, (SInt, SBool)):
        return mk_bool(z3.Not(zb(v)))
    return not truth(v)


def eq_val(a, b):
    """Python == on possibly symbolic structured values -> bool or SBool."""
    if not has_sym(a) and not has_sym(b):
        return a == b
    ta, tb = isinstance(a, (tuple, list)), isinstance(b, (tuple, list))
    if ta or tb:
        if not (ta and tb) or (type(a) is not type(b)):
            return False
        if len(a) != len(b):
            return False
        parts = [eq_val(x, y) for x, y in zip(a, b)]
        if any(p is False for p in parts):
            return False
        ps = [zb(p) for p in parts if p is not True]
        return mk_bool(z3.And(ps)) if ps else True
    if isinstance(a, (SInt, SBool)) and isinstance(b, (SInt, SBool, int)) or \
       isinstance(b, (SInt, SBool)) and isinstance(a, (SInt, SBool, int)):
        (alo, ahi), (blo, bhi) = bounds(a), bounds(b)
        if ahi < blo or bhi < alo:
            return False
        return mk_bool(zt(a) == zt(b))
    # symbolic int against str/None/float/object
    if isinstance(a, float) or isinstance(b, float):
        raise Unsupported('== between symbolic int and float')
    return False


def cmp_ints(kind, a, b):
    """kind in '<','<=','>','>='."""
    if not is_sym(a) and not is_sym(b):
        return {'<': operator.lt, '<=': operator.le, '>': operator.gt, '>=': operator.ge}[kind](a, b)
    if not isinstance(a, (SInt, SBool, int)) or not isinstance(b, (SInt, SBool, int)):
        raise Unsupported('ordering comparison on %s, %s' % (type(a).__name__, type(b).__name__))
    (alo, ahi), (blo, bhi) = bounds(a), bounds(b)
    if kind == '<':
        if ahi < blo: return True
        if alo >= bhi: return False
        return mk_bool(zt(a) < zt(b))
    if kind == '<=':
        if ahi <= blo: return True
        if alo > bhi: return False
        return mk_bool(zt(a) <= zt(b))
    if kind == '>':
        if alo > bhi: return True
        if ahi <= blo: return False
        return mk_bool(zt(a) > zt(b))
    if kind == '>=':
        if alo >= bhi: return True
        if ahi < blo: return False
        return mk_bool(zt(a) >= zt(b))
    raise Unsupported(kind)


class Unmergeable(Exception):
    pass


TAINT_PREFIXES = ('P0', 'D0', 'P1', 'D1', 'prec_to_dps', 'dps_to_prec', 'TAG')


def tainted(x):
    """does the value's term mention the tracked symbolic state?  (cached DFS over the z3 term)"""
    if not isinstance(x, SInt):
        return False
    cache = G.stats.setdefault('_taint', {})
    root = x.t
    rid = root.get_id()
    if rid in cache:
        return cache[rid]
    stack = [root]
    seen = []
    res = False
    while stack:
        t = stack.pop()
        tid = t.get_id()
        if tid in cache:
            if cache[tid]:
                res = True
                break
            continue
        seen.append(tid)
        if z3.is_app(t):
            if t.num_args() == 0 or t.decl().kind() == z3.Z3_OP_UNINTERPRETED:
                nm = t.decl().name()
                if nm.startswith(TAINT_PREFIXES):
                    res = True
                    break
            stack.extend(t.children())
    if not res:
        for tid in seen:
            cache[tid] = False
    cache[rid] = res
    return res


def merge(c, a, b):
    """value = a if c else b   (c: z3 Bool)"""
    if a is b:
        return a
    if isinstance(a, Unknown) or isinstance(b, Unknown):
        ta = a.tag if isinstance(a, Unknown) else None
        tb = b.tag if isinstance(b, Unknown) else None
        if ta is None and tb is None:
            return a if isinstance(a, Unknown) else b
        if ta is None or tb is None:
            return Unknown('merge', None)
        return Unknown('merge', merge(c, ta, tb))
    if isinstance(a, (tuple, list)) and isinstance(b, (tuple, list)) and type(a) is type(b) and len(a) == len(b):
        return type(a)(merge(c, x, y) for x, y in zip(a, b))
    if isinstance(a, SStr) or isinstance(b, SStr):
        ca = a.chars if isinstance(a, SStr) else (list(a) if isinstance(a, str) else None)
        cb = b.chars if isinstance(b, SStr) else (list(b) if isinstance(b, str) else None)
        if ca is None or cb is None or len(ca) != len(cb):
            raise Unmergeable()
        out = []
        for x, y in zip(ca, cb):
            if isinstance(x, str) and isinstance(y, str):
                if x != y:
                    if x.isdigit() and y.isdigit():
                        out.append(merge(c, int(x), int(y)))
                        continue
                    raise Unmergeable()
                out.append(x)
            elif isinstance(x, str) or isinstance(y, str):
                s_, o_ = (x, y) if isinstance(x, str) else (y, x)
                if not s_.isdigit():
                    raise Unmergeable()
                out.append(merge(c, int(x) if isinstance(x, str) else x, int(y) if isinstance(y, str) else y))
            else:
                out.append(merge(c, x, y))
        return SStr(out)
    if isinstance(a, (SBool, bool)) and isinstance(b, (SBool, bool)):
        return mk_bool(z3.If(c, zb(a), zb(b)))
    if isinstance(a, (SInt, int, SBool)) and isinstance(b, (SInt, int, SBool)):
        (alo, ahi), (blo, bhi) = bounds(a), bounds(b)
        if G.stats.get('_keep_concrete_ints') and type(a) is int and type(b) is int and a != b:
            raise Unmergeable()      # harness option: paths that differ in a concrete integer (e.g. a decimal exponent) stay forked
        if G.ABSTRACT and not (isinstance(a, int) and isinstance(b, int) and a == b):
            # abstract mode: only values derived from the tracked state (precision) keep an exact ite; everything else
            # is joined to an Unknown (which is viewed as a fresh integer when used as one) so that terms stay small
            if not (tainted(a) or tainted(b)):
                return Unknown('join')
        return mk_int(z3.If(c, zt(a), zt(b)), min(alo, blo), max(ahi, bhi))
    if not has_sym(a) and not has_sym(b):
        try:
            if type(a) is type(b) and isinstance(a, (str, float, type(None), bytes, frozenset)) and a == b:
                return a
        except Exception:
            pass
    if G.ABSTRACT:
        keep = G.stats.get('_keep_separate')
        if keep is not None and (keep(a) or keep(b)):
            raise Unmergeable()      # objects whose methods matter for the property are never blurred into Unknown
        return Unknown('join')
    raise Unmergeable()
