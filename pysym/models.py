"""Models (stubs) of callables that are not mpmath source.  Each model is part of every
claim that uses it; harnesses list the ones they rely on in the evidence (trusted base)."""
import bisect as _bisect
import builtins
import math
import operator

import z3

from .values import (G, SInt, SBool, Unknown, Unsupported, WidthError, is_sym, has_sym, has_unknown, bvv, zt, zb,
                     mk_int, mk_bool, truth, bounds, binop, merge, fresh_int, fresh_bool, eq_val, cmp_ints, Unmergeable)

NORMAL, RETURN, RAISE = 0, 1, 2
_MISSING = None


def _ret(st, v):
    return [(st, NORMAL, v)]


class SLog2:
    """result of math.log(n, 2) for a symbolic positive int n (only int() of it is modelled)"""
    def __init__(self, n):
        self.n = n


class SFloat:
    """A finite nonzero-or-zero Python float modelled as an exact dyadic  m * 2**e  with |m| < 2**53
    (m: int/SInt, e: int/SInt).  Only the operations mpmath's conversion code performs are modelled."""
    def __init__(self, m, e):
        self.m = m
        self.e = e

    def __repr__(self):
        return 'SFloat(%r,%r)' % (self.m, self.e)


def m_int(eng, st, args, kw, fr):
    if len(args) == 1 and not kw:
        v = args[0]
        if isinstance(v, (SInt, int)) and not isinstance(v, bool):
            return _ret(st, v)
        if isinstance(v, (SBool, bool)):
            return _ret(st, mk_int(zt(v), 0, 1))
        if isinstance(v, Unknown):
            if not eng.abstract:
                raise Unsupported('int() of unknown')
            b = fresh_bool('intraises')
            return [(st.fork(z3.Not(b.t)), NORMAL, v.as_int()), (st.fork(b.t), RAISE, Unknown('exc'))]
        if isinstance(v, SLog2):
            n = v.n
            lo, hi = bounds(n)
            if lo <= 0:
                if eng.feasible(st.pc, zt(n) <= bvv(0)):
                    raise Unsupported('log of possibly non-positive')
                lo = 1
            k = fresh_int('ilog', lo.bit_length() - 1, hi.bit_length())
            one = bvv(1)
            # k in {L-1, L} where L = bit length of n  (float log2 rounding may hit the next integer)
            G.SIDE.append(z3.And(z3.UGE(zt(n), one << (k.t - one)), z3.ULT(z3.LShR(zt(n), k.t), bvv(2))))
            return _ret(st, k)
        if isinstance(v, SFloat):
            # int(m * 2**e): truncation toward zero
            m, e = v.m, v.e
            if is_sym(e):
                raise Unsupported('int() of float with symbolic exponent')
            if e >= 0:
                return _ret(st, binop(operator.lshift, m, e))
            G.CUR = (eng, st.pc)
            try:
                a = m_abs(eng, st, [m], {}, fr)[0][2]
                q = binop(operator.rshift, a, -e)
                neg = cmp_ints('<', m, 0)
                if neg is True:
                    return _ret(st, binop(operator.sub, 0, q))
                if neg is False:
                    return _ret(st, q)
                return _ret(st, merge(zb(neg), binop(operator.sub, 0, q), q))
            finally:
                G.CUR = None
        from .engine import is_mp_object, is_mp_function
        if is_mp_object(v):
            for nm in ('__int__', '__index__'):
                m = eng.find_class_attr(type(v), nm)
                if m is not None and is_mp_function(m):
                    return eng.call(st, m, [v], {}, fr)
    from .values import SStr
    if args and isinstance(args[0], SStr):
        from .strings import to_int
        base = args[1] if len(args) > 1 else kw.get('base', 10)
        if base != 10:
            raise Unsupported('int(symbolic decimal string, base != 10)')
        G.CUR = (eng, st.pc)
        try:
            return _ret(st, to_int(args[0]))
        except ValueError as e:
            return [(st, RAISE, e)]
        finally:
            G.CUR = None
    from .strings import SHex
    if args and isinstance(args[0], SHex):
        base = args[1] if len(args) > 1 else kw.get('base', 10)
        if base != 16:
            raise Unsupported('int(hex string, base != 16)')
        if args[0].off not in (0, 2):
            raise Unsupported('int of partially sliced hex string')
        return _ret(st, args[0].n)      # int(hex(n), 16) == int(hex(n)[2:], 16) == n for n >= 0
    if has_sym(list(args)):
        raise Unsupported('int() of symbolic non-int')
    if has_unknown(list(args)):
        return eng.unknown_call(st, Unknown('int'), args, kw)
    try:
        return _ret(st, int(*args, **kw))
    except Exception as e:
        return [(st, RAISE, e)]


def m_abs(eng, st, args, kw, fr):
    v = args[0]
    if isinstance(v, SBool):
        v = mk_int(zt(v), 0, 1)
    if isinstance(v, SInt):
        lo, hi = v.lo, v.hi
        if lo >= 0:
            return _ret(st, v)
        if hi <= 0:
            return _ret(st, mk_int(-v.t, -hi, -lo))
        return _ret(st, mk_int(z3.If(v.t >= 0, v.t, -v.t), 0, max(-lo, hi)))
    if isinstance(v, Unknown):
        return eng.unknown_call(st, v, args, kw)
    from .engine import is_mp_object, is_mp_function
    if is_mp_object(v):
        m = eng.find_class_attr(type(v), '__abs__')
        if is_mp_function(m):
            return eng.call(st, m, [v], {}, fr)
    return _ret(st, abs(v))


def m_minmax(is_min):
    def m(eng, st, args, kw, fr):
        if kw:
            raise Unsupported('min/max with key')
        vals = list(args[0]) if len(args) == 1 and isinstance(args[0], (list, tuple)) else list(args)
        if len(args) == 1 and not isinstance(args[0], (list, tuple)):
            return eng.unknown_call(st, Unknown('minmax'), args, kw)
        if has_unknown(vals):
            if all(isinstance(x, (Unknown, SInt, int)) and not isinstance(x, bool) for x in vals):
                vals = [x.as_int() if isinstance(x, Unknown) else x for x in vals]
            else:
                return eng.unknown_call(st, Unknown('minmax'), args, kw)
        # infinities of the mp context (ctx.inf / ctx.ninf objects) mixed with symbolic ints
        def inf_kind(x):
            t = getattr(x, '_mpf_', None)
            if isinstance(t, tuple) and len(t) == 4 and not has_sym(t):
                if tuple(t) == (0, 0, -456, -2):
                    return 1
                if tuple(t) == (1, 0, -789, -3):
                    return -1
            return 0
        if has_sym(vals) and any(inf_kind(x) for x in vals):
            absorbing = [x for x in vals if inf_kind(x) == (-1 if is_min else 1)]
            if absorbing:
                return _ret(st, absorbing[0])
            rest = [x for x in vals if not inf_kind(x)]
            if not rest:
                return _ret(st, vals[0])
            vals = rest
            if len(vals) == 1:
                return _ret(st, vals[0])
        if not has_sym(vals):
            try:
                return _ret(st, (min if is_min else max)(vals))
            except Exception as e:
                return [(st, RAISE, e)]
        acc = vals[0]
        for v in vals[1:]:
            c = cmp_ints('<', v, acc) if is_min else cmp_ints('>', v, acc)
            if c is True:
                acc = v
            elif c is False:
                pass
            else:
                acc = merge(c.t, v, acc)
                # tighten interval
                if isinstance(acc, SInt):
                    (alo, ahi), (blo, bhi) = bounds(v), bounds(vals[0])
        # interval tightening for min/max
        if isinstance(acc, SInt):
            los = [bounds(v)[0] for v in vals]
            his = [bounds(v)[1] for v in vals]
            if is_min:
                acc = SInt(acc.t, min(los), min(his))
            else:
                acc = SInt(acc.t, max(los), max(his))
        return _ret(st, acc)
    return m


def m_divmod(eng, st, args, kw, fr):
    a, b = args
    if not has_sym([a, b]):
        try:
            return _ret(st, divmod(a, b))
        except Exception as e:
            return [(st, RAISE, e)]
    G.CUR = (eng, st.pc)
    try:
        q = binop(operator.floordiv, a, b)
        r = binop(operator.mod, a, b)
    except ZeroDivisionError as e:
        return [(st, RAISE, e)]
    finally:
        G.CUR = None
    return _ret(st, (q, r))


def m_bool(eng, st, args, kw, fr):
    if not args:
        return _ret(st, False)
    return eng.truth_outs(st, args[0], fr)


def m_bisect(eng, st, args, kw, fr):
    lst, x = args
    if not is_sym(x):
        return _ret(st, _bisect.bisect(lst, x))
    xt = zt(x)
    lo, hi = bounds(x)
    ilo, ihi = _bisect.bisect(lst, lo), _bisect.bisect(lst, hi)
    # tighten with the solver (merged values often have coarse intervals)
    budget = 24
    while ilo < ihi and budget and not eng.feasible(st.pc, xt < bvv(lst[ilo])):
        ilo += 1
        budget -= 1
    while ilo < ihi and budget and not eng.feasible(st.pc, xt >= bvv(lst[ihi - 1])):
        ihi -= 1
        budget -= 1
    res = bvv(ihi)
    for i in range(ihi - 1, ilo - 1, -1):
        res = z3.If(xt < bvv(lst[i]), bvv(i), res)
    return _ret(st, mk_int(res, ilo, ihi))


def m_len(eng, st, args, kw, fr):
    v = args[0]
    from .values import SStr
    if isinstance(v, SStr):
        return _ret(st, len(v))
    if isinstance(v, Unknown):
        return eng.unknown_call(st, v, args, kw)
    from .engine import is_mp_object, is_mp_function
    if is_mp_object(v):
        m = eng.find_class_attr(type(v), '__len__')
        if is_mp_function(m):
            return eng.call(st, m, [v], {}, fr)
    try:
        return _ret(st, len(eng.overlay_seq(st, v)))
    except TypeError as e:
        return [(st, RAISE, e)]


def _type_of(v):
    if isinstance(v, SInt):
        return int
    if isinstance(v, SBool):
        return bool
    if isinstance(v, SFloat):
        return float
    if type(v).__name__ == 'SComplex':
        return complex
    return type(v)


def m_isinstance(eng, st, args, kw, fr):
    v, t = args
    if isinstance(v, Unknown) or isinstance(t, Unknown):
        return _ret(st, Unknown('isinstance'))
    if isinstance(v, (SInt, SBool, SFloat)) or type(v).__name__ == 'SComplex':
        tt = _type_of(v)

        def flat(x):
            if isinstance(x, tuple):
                for y in x:
                    yield from flat(y)
            else:
                yield x
        return _ret(st, any(isinstance(x, type) and issubclass(tt, x) for x in flat(t)))
    return _ret(st, isinstance(v, t))


def m_type(eng, st, args, kw, fr):
    if len(args) != 1:
        return eng.native_call(st, type, args, kw)
    v = args[0]
    if isinstance(v, Unknown):
        return _ret(st, Unknown('type'))
    return _ret(st, _type_of(v))


def m_hasattr(eng, st, args, kw, fr):
    obj, name = args
    if isinstance(obj, Unknown):
        return _ret(st, Unknown('hasattr'))
    if isinstance(obj, (SInt, SBool)):
        return _ret(st, hasattr(0, name))
    if isinstance(obj, SFloat):
        return _ret(st, hasattr(0.5, name))
    if type(obj).__name__ == 'SComplex':
        return _ret(st, hasattr(0.5j, name))
    h = st.heap.get((id(obj), name))
    if h is not None:
        from .engine import _MISSING as EM
        return _ret(st, h[1] is not EM)
    # property with interpreted getter: hasattr means the getter does not raise AttributeError
    from .engine import is_mp_function, _MISSING as EM
    if not isinstance(obj, type):
        d = eng.find_class_attr(type(obj), name)
        if isinstance(d, property) and d.fget is not None and is_mp_function(d.fget):
            outs = eng.call(st, d.fget, [obj], {}, fr)
            res = []
            for s, k, v in outs:
                if k == NORMAL:
                    res.append((s, NORMAL, True))
                elif isinstance(v, AttributeError):
                    res.append((s, NORMAL, False))
                else:
                    res.append((s, k, v))
            return res
    return _ret(st, hasattr(obj, name))


def m_getattr(eng, st, args, kw, fr):
    obj, name = args[0], args[1]
    outs = eng.load_attr(st, obj, name, fr)
    if len(args) == 3:
        res = []
        for s, k, v in outs:
            if k == RAISE and isinstance(v, AttributeError):
                res.append((s, NORMAL, args[2]))
            else:
                res.append((s, k, v))
        return res
    return outs


def m_setattr(eng, st, args, kw, fr):
    obj, name, val = args
    return eng.store_attr(st, obj, name, val, fr)


def m_mathlog(eng, st, args, kw, fr):
    if len(args) == 2 and is_sym(args[0]) and args[1] == 2:
        return _ret(st, SLog2(args[0]))
    if has_sym(list(args)):
        raise Unsupported('math.log of symbolic')
    if has_unknown(list(args)):
        return eng.unknown_call(st, Unknown('log'), args, kw)
    try:
        return _ret(st, math.log(*args))
    except Exception as e:
        return [(st, RAISE, e)]


def m_frexp(eng, st, args, kw, fr):
    x = args[0]
    if isinstance(x, SFloat):
        # x = m * 2**e, m with known exact bit length range -> frexp mantissa in [0.5,1)
        m, e = x.m, x.e
        lo, hi = bounds(m)
        amax = max(abs(lo), abs(hi))
        amin = 0 if lo <= 0 <= hi else min(abs(lo), abs(hi))
        if amin.bit_length() != amax.bit_length() or amin == 0:
            raise Unsupported('frexp of float model with non-fixed mantissa length')
        L = amax.bit_length()
        return _ret(st, (SFloat(m, -L), binop(operator.add, e, L)))
    if has_sym([x]):
        raise Unsupported('frexp of symbolic')
    try:
        return _ret(st, math.frexp(x))
    except Exception as ex:
        return [(st, RAISE, ex)]


def m_ldexp(eng, st, args, kw, fr):
    m, e = args
    if not has_sym([m, e]):
        try:
            return _ret(st, math.ldexp(m, e))
        except Exception as ex:
            return [(st, RAISE, ex)]
    lo, hi = bounds(m)
    if max(abs(lo), abs(hi)) > 1 << 53:
        raise Unsupported('ldexp of an int that is not exactly a double')
    # exact for results in the normal range; OverflowError at/above 2**1024; subnormal range excluded
    if lo <= 0 <= hi and eng.feasible(st.pc, zt(m) == bvv(0)):
        raise Unsupported('ldexp of a possibly zero mantissa')
    amax = max(abs(lo), abs(hi))
    amin = 1 if lo <= 0 <= hi else min(abs(lo), abs(hi))
    if is_sym(m):
        am = m_abs(eng, st, [m], {}, fr)[0][2]
        L = None
        for k in range(amax.bit_length(), amin.bit_length() - 1, -1):
            L = bvv(k) if L is None else z3.If(z3.ULT(zt(am), bvv(1 << k)), bvv(k), L)
        L = mk_int(L, amin.bit_length(), amax.bit_length())
    else:
        L = abs(m).bit_length()
    top = binop(operator.add, e, L)     # |value| in [2**(top-1), 2**top)
    outs = []
    ov = cmp_ints('>', top, 1024)
    un = cmp_ints('<', binop(operator.sub, top, 1), -1022)
    for s1, b1 in eng.branch(st, ov):
        if b1:
            outs.append((s1, RAISE, OverflowError('math range error')))
            continue
        for s2, b2 in eng.branch(s1, un):
            if b2:
                raise Unsupported('ldexp result in the subnormal range (outside the model)')
            outs.append((s2, NORMAL, SFloat(m, e)))
    return outs


def m_float(eng, st, args, kw, fr):
    if args and isinstance(args[0], SFloat):
        return _ret(st, args[0])
    from .values import SStr as _SStr
    if args and isinstance(args[0], _SStr):
        # float(<symbolic decimal literal>): only the validation effect is modelled (ValueError for a malformed shape); the
        # value is an Unknown-free dummy because callers that use it are outside the model
        import re
        shape = ''.join(c if isinstance(c, str) else '7' for c in args[0].chars)
        if re.fullmatch(r'[+-]?(\d+\.?\d*|\.\d+)(e[+-]?\d+)?', shape):
            return _ret(st, 0.0)
        return [(st, RAISE, ValueError('could not convert string to float'))]
    if has_sym(list(args)):
        raise Unsupported('float() of symbolic')
    if has_unknown(list(args)):
        return eng.unknown_call(st, Unknown('float'), args, kw)
    from .engine import is_mp_object, is_mp_function
    if args and is_mp_object(args[0]):
        m = eng.find_class_attr(type(args[0]), '__float__')
        if is_mp_function(m):
            return eng.call(st, m, [args[0]], {}, fr)
    try:
        return _ret(st, float(*args))
    except Exception as e:
        return [(st, RAISE, e)]


def m_hash(eng, st, args, kw, fr):
    v = args[0]
    from .engine import is_mp_object, is_mp_function
    if is_mp_object(v):
        m = eng.find_class_attr(type(v), '__hash__')
        if is_mp_function(m):
            return eng.call(st, m, [v], {}, fr)
    if has_sym([v]):
        raise Unsupported('hash of symbolic value (model it in the harness)')
    if isinstance(v, Unknown):
        return eng.unknown_call(st, v, args, kw)
    try:
        return _ret(st, hash(v))
    except TypeError as e:
        return [(st, RAISE, e)]


def m_hex(eng, st, args, kw, fr):
    v = args[0]
    if is_sym(v):
        from .strings import SHex
        lo, hi = bounds(v)
        if lo < 0:
            G.CUR = (eng, st.pc)
            try:
                if eng.feasible(st.pc, zt(v) < bvv(0)):
                    raise Unsupported('hex of possibly negative symbolic int')
            finally:
                G.CUR = None
        return _ret(st, SHex(v, 2))
    return _ret(st, hex(v))


def m_range(eng, st, args, kw, fr):
    if has_sym(list(args)) and not eng.abstract and all(isinstance(a, (int, SInt)) and not isinstance(a, bool) for a in args):
        # symbolic bounds whose feasible values are few: fork on the concrete values (each fork is an ordinary concrete range)
        outs = [(st, [])]
        for a in args:
            nxt = []
            for s0, vals in outs:
                if isinstance(a, int):
                    nxt.append((s0, vals + [a]))
                    continue
                lo, hi = bounds(a)
                if hi - lo > 6:
                    raise Unsupported('range with a symbolic bound of wide range')
                for v in range(lo, hi + 1):
                    c = zt(a) == bvv(v)
                    if eng.feasible(s0.pc, c):
                        nxt.append((s0.fork(c), vals + [v]))
            outs = nxt
        return [(s0, NORMAL, range(*vals)) for s0, vals in outs]
    if has_sym(list(args)):
        raise Unsupported('range with symbolic bound')
    if has_unknown(list(args)):
        return _ret(st, Unknown('range'))
    try:
        return _ret(st, range(*args))
    except Exception as e:
        return [(st, RAISE, e)]


def m_tuple(eng, st, args, kw, fr):
    if not args:
        return _ret(st, ())
    v = args[0]
    if isinstance(v, (tuple, list)):
        return _ret(st, tuple(v))
    if isinstance(v, Unknown):
        return _ret(st, Unknown('tuple', v.tag))
    return eng.native_call(st, tuple, args, kw)


def m_list(eng, st, args, kw, fr):
    if not args:
        return _ret(st, [])
    v = args[0]
    if isinstance(v, (tuple, list)):
        return _ret(st, list(eng.overlay_seq(st, v)))
    if isinstance(v, Unknown):
        return _ret(st, Unknown('list', v.tag))
    return eng.native_call(st, list, args, kw)


def m_str(eng, st, args, kw, fr):
    from .values import SStr
    if args and isinstance(args[0], SStr):
        return _ret(st, args[0])
    if args and isinstance(args[0], SBool):
        raise Unsupported('str() of symbolic bool')
    if args and is_sym(args[0]):
        from .strings import SDec
        return SDec.of(eng, st, args[0])
    if args and isinstance(args[0], Unknown):
        return _ret(st, '<unknown>')
    if has_sym(list(args)):
        return _ret(st, '<symbolic>')
    return eng.native_call(st, str, args, kw)


def m_repr(eng, st, args, kw, fr):
    if has_sym(list(args)) or has_unknown(list(args)):
        return _ret(st, '<symbolic>')
    return eng.native_call(st, repr, args, kw)


def m_round(eng, st, args, kw, fr):
    if has_sym(list(args)):
        raise Unsupported('round() of symbolic')
    if has_unknown(list(args)):
        return eng.unknown_call(st, Unknown('round'), args, kw)
    return eng.native_call(st, round, args, kw)


def m_callable(eng, st, args, kw, fr):
    from .engine import Closure, BoundClosure
    v = args[0]
    if isinstance(v, (Closure, BoundClosure)):
        return _ret(st, True)
    if isinstance(v, Unknown):
        return _ret(st, Unknown('callable'))
    return _ret(st, callable(v))


def m_id(eng, st, args, kw, fr):
    return _ret(st, id(args[0]))


def m_sum(eng, st, args, kw, fr):
    if has_unknown(list(args)):
        return eng.unknown_call(st, Unknown('sum'), args, kw)
    if not has_sym(list(args)):
        from .engine import is_mp_object
        seq = args[0]
        if not (isinstance(seq, (list, tuple)) and any(is_mp_object(x) for x in seq)):
            return eng.native_call(st, sum, args, kw)
    seq = list(args[0])
    acc = args[1] if len(args) > 1 else 0
    import ast as _ast
    outs = [(st, NORMAL, acc)]
    for x in seq:
        outs = eng.lift(outs, lambda s, a, x=x: eng.do_binop(s, _ast.Add, a, x, fr))
    return outs


def m_object_new(eng, st, args, kw, fr):
    cls = args[0]
    if isinstance(cls, Unknown):
        return _ret(st, Unknown('new'))
    try:
        return _ret(st, object.__new__(cls))
    except Exception as e:
        return [(st, RAISE, e)]


class SComplex:
    def __init__(self, real, imag):
        self.real = real
        self.imag = imag


def m_complex(eng, st, args, kw, fr):
    if any(isinstance(a, SFloat) for a in args):
        if len(args) != 2:
            raise Unsupported('complex() of one float-model value')
        return _ret(st, SComplex(args[0], args[1]))
    if has_sym(list(args)):
        raise Unsupported('complex() of symbolic')
    if has_unknown(list(args)):
        return eng.unknown_call(st, Unknown('complex'), args, kw)
    from .engine import is_mp_object, is_mp_function
    if args and is_mp_object(args[0]):
        c = eng.find_class_attr(type(args[0]), '__complex__')
        if is_mp_function(c):
            return eng.call(st, c, [args[0]], {}, fr)
    return eng.native_call(st, complex, args, kw)


class Identity:
    """result of functools.wraps(f): a decorator that returns its argument (metadata copying is irrelevant here)"""


IDENTITY = Identity()


def m_wraps(eng, st, args, kw, fr):
    return _ret(st, IDENTITY)


def m_print(eng, st, args, kw, fr):
    return _ret(st, None)


import functools as _functools

DEFAULT_MODELS = {
    _functools.wraps: m_wraps,
    print: m_print,
    complex: m_complex,
    int: m_int, abs: m_abs, min: m_minmax(True), max: m_minmax(False), divmod: m_divmod,
    bool: m_bool, _bisect.bisect: m_bisect, _bisect.bisect_right: m_bisect, len: m_len,
    isinstance: m_isinstance, type: m_type, hasattr: m_hasattr, getattr: m_getattr, setattr: m_setattr,
    math.log: m_mathlog, math.frexp: m_frexp, math.ldexp: m_ldexp, float: m_float, hash: m_hash,
    hex: m_hex, range: m_range, tuple: m_tuple, list: m_list, str: m_str, repr: m_repr, round: m_round,
    callable: m_callable, id: m_id, sum: m_sum, object.__new__: m_object_new,
}
