"""Minimal symbolic string models.

SHex: hex(n) of a symbolic non-negative int (only [2:] and int(.., 16) are modelled: an inverse pair).
SStr (values.SStr): decimal digit strings of symbolic integers with a concrete length -- what mpmath's printing code
builds with str(int), slicing, concatenation, rstrip('0'), digit comparisons and the carry loop of to_str.
"""
import operator

import z3

from .values import (G, Unsupported, SInt, SBool, SStr, bounds, bvv, zt, zb, mk_int, mk_bool, narrow_udivrem, is_sym)

NORMAL, RAISE = 0, 2


class SHex:
    def __init__(self, n, strip_needed):
        self.n = n
        self.off = 0

    def sliced(self, sl):
        if sl.step not in (None, 1) or sl.stop is not None or sl.start not in (0, 2, None):
            raise Unsupported('slice of symbolic hex string other than [2:]')
        r = SHex(self.n, 0)
        r.off = self.off + (sl.start or 0)
        if r.off not in (0, 2):
            raise Unsupported('hex slice')
        return r


class SDec:
    @staticmethod
    def of(eng, st, n):
        """str(n) for a symbolic int -> outcomes [(state, NORMAL, SStr)] (forks on the number of digits)"""
        lo, hi = bounds(n)
        if lo < 0:
            if eng.feasible(st.pc, zt(n) < bvv(0)):
                raise Unsupported('str() of a possibly negative symbolic int')
            lo = 0
        nt = zt(n)
        if lo == 0 and not eng.feasible(st.pc, nt == bvv(0)):
            lo = 1
        lens = list(range(len(str(max(lo, 0))), len(str(hi)) + 1))
        outs = []
        for L in lens:
            lo_L = 10 ** (L - 1) if L > 1 else 0
            hi_L = 10 ** L - 1
            cond = z3.And(z3.UGE(nt, bvv(max(lo_L, lo))), z3.ULE(nt, bvv(min(hi_L, hi))))
            if len(lens) > 1:
                if not eng.feasible(st.pc, cond):
                    continue
                s2 = st.fork(cond)
            else:
                s2 = st
            chars = []
            nhi = min(hi_L, hi)
            for i in range(L):
                p10 = 10 ** (L - 1 - i)
                q = narrow_udivrem(nt, bvv(p10), nhi, p10, True) if p10 > 1 else nt
                d = narrow_udivrem(q, bvv(10), nhi // p10, 10, False)
                dlo = 1 if (i == 0 and (L > 1 or lo >= 1)) else 0
                chars.append(mk_int(d, dlo, 9))
            outs.append((s2, NORMAL, SStr(chars)))
        if not outs:
            raise Unsupported('str(): no feasible digit count')
        return outs


def char_digit(c):
    """digit value of a character of an SStr (int/SInt) or None for a non-digit"""
    if isinstance(c, str):
        return int(c) if c.isdigit() else None
    return c


def char_eq(c, d):
    """c == d for SStr characters / 1-char strs -> bool or SBool"""
    if isinstance(c, str) and isinstance(d, str):
        return c == d
    dc, dd = char_digit(c), char_digit(d)
    if dc is None or dd is None:
        return False
    if not is_sym(dc) and not is_sym(dd):
        return dc == dd
    return mk_bool(zt(dc) == zt(dd))


def seq_eq(a, b):
    ca = a.chars if isinstance(a, SStr) else list(a)
    cb = b.chars if isinstance(b, SStr) else list(b)
    if len(ca) != len(cb):
        return False
    parts = [char_eq(x, y) for x, y in zip(ca, cb)]
    if any(p is False for p in parts):
        return False
    ps = [zb(p) for p in parts if p is not True]
    return mk_bool(z3.And(ps)) if ps else True


def contains(a, b):
    """a in b  for a 1-char SStr a and a concrete str b"""
    if len(a) != 1:
        raise Unsupported('substring test on symbolic string')
    parts = [char_eq(a.chars[0], ch) for ch in b]
    if any(p is True for p in parts):
        return True
    ps = [zb(p) for p in parts if p is not False]
    return mk_bool(z3.Or(ps)) if ps else False


def concat(a, b):
    ca = a.chars if isinstance(a, SStr) else list(a)
    cb = b.chars if isinstance(b, SStr) else list(b)
    return SStr(ca + cb)


def to_int(s):
    """int(s) for an SStr of digits with an optional concrete sign"""
    chars = s.chars
    neg = False
    if chars and isinstance(chars[0], str) and chars[0] in '+-':
        neg = chars[0] == '-'
        chars = chars[1:]
    if not chars:
        raise ValueError('invalid literal for int()')
    acc = 0
    for c in chars:
        d = char_digit(c)
        if d is None:
            raise Unsupported('int() of a symbolic string with non-digits')
        from .values import binop
        acc = binop(operator.add, binop(operator.mul, acc, 10), d)
    if neg:
        acc = binop(operator.sub, 0, acc)
    return acc


class SStrMethod:
    def __init__(self, s, name):
        self.s, self.name = s, name

    def invoke(self, eng, st, args, kwargs):
        s = self.s
        if self.name == 'rstrip' and len(args) == 1 and isinstance(args[0], str) and len(args[0]) == 1 and not args[0].isdigit():
            # stripping a concrete non-digit character: only concrete trailing characters can match
            n = len(s)
            while n and isinstance(s.chars[n - 1], str) and s.chars[n - 1] == args[0]:
                n -= 1
            return [(st, NORMAL, SStr(s.chars[:n]))]
        if self.name == 'rstrip':
            if len(args) != 1 or args[0] != '0':
                raise Unsupported('rstrip of a symbolic string with other than "0"')
            outs = []
            cur = st
            n = len(s)
            # k trailing zeros stripped: chars[n-k:] all '0' and chars[n-k-1] != '0' (or k == n)
            for k in range(0, n + 1):
                conds = []
                ok = True
                for c in s.chars[n - k:]:
                    e = char_eq(c, '0')
                    if e is False:
                        ok = False
                        break
                    if e is not True:
                        conds.append(zb(e))
                if not ok:
                    break
                if k < n:
                    e = char_eq(s.chars[n - k - 1], '0')
                    if e is True:
                        continue
                    if e is not False:
                        conds.append(z3.Not(zb(e)))
                if conds:
                    c_ = z3.And(conds)
                    if not eng.feasible(st.pc, c_):
                        continue
                    outs.append((st.fork(c_), NORMAL, SStr(s.chars[:n - k])))
                else:
                    outs.append((st, NORMAL, SStr(s.chars[:n - k])))
                    break
            return outs
        if self.name in ('strip', 'lstrip') and len(args) == 1 and isinstance(args[0], str) and not any(ch.isdigit() for ch in args[0]):
            # stripping concrete non-digit characters: symbolic characters (decimal digits) never match
            lo, hi = 0, len(s)
            while lo < hi and isinstance(s.chars[lo], str) and s.chars[lo] in args[0]:
                lo += 1
            if self.name == 'strip':
                while hi > lo and isinstance(s.chars[hi - 1], str) and s.chars[hi - 1] in args[0]:
                    hi -= 1
            return [(st, NORMAL, SStr(s.chars[lo:hi]))]
        if self.name in ('lower', 'strip'):
            if args:
                raise Unsupported('%s with arguments on a symbolic string' % self.name)
            if any(isinstance(c, str) and (c != c.lower() or c.isspace()) for c in s.chars):
                raise Unsupported('%s would change a concrete character' % self.name)
            return [(st, NORMAL, s)]
        if self.name == 'split':
            # split on a concrete single non-digit character: symbolic characters are decimal digits and never match it
            if len(args) != 1 or not isinstance(args[0], str) or len(args[0]) != 1 or args[0].isdigit():
                raise Unsupported('split of a symbolic string on %r' % (args,))
            parts, cur = [], []
            for c in s.chars:
                if isinstance(c, str) and c == args[0]:
                    parts.append(SStr(cur))
                    cur = []
                else:
                    cur.append(c)
            parts.append(SStr(cur))
            return [(st, NORMAL, parts)]
        raise Unsupported('method %s of a symbolic string' % self.name)
