"""Minimal symbolic string models: hex(n) of a symbolic non-negative int (only slicing off the
'0x' prefix and int(.., 16) are modelled: an inverse pair), and decimal numerals (SDec)."""
from .values import Unsupported, SInt, bounds


class SHex:
    """hex(n)[skip:] for symbolic n >= 0; skip is how many leading characters were sliced off"""
    def __init__(self, n, strip_needed):
        self.n = n
        self.off = 0

    def sliced(self, sl):
        if sl.step not in (None, 1) or sl.stop is not None or sl.start not in (0, 2, None):
            raise Unsupported('slice of symbolic hex string other than [2:]')
        r = SHex(self.n, 0)
        r.off = self.off + (sl.start or 0)
        if r.off not in (0, 2):
            raise Unsupported('hex slice')
        return r


class SDec:
    @staticmethod
    def of(eng, st, n):
        raise Unsupported('str() of symbolic int (decimal model not enabled for this harness)')
