"""Contract models for the few mpmath/CPython primitives whose body is out of reach
(float-seeded integer square root) or too heavy to bit-blast at large widths (divmod)."""
import operator

import z3

from .values import (G, SInt, SBool, Unsupported, is_sym, has_sym, bvv, zt, mk_int, bounds, binop, fresh_int, fits)

NORMAL, RAISE = 0, 2


def isqrt_int(n):
    import math
    return math.isqrt(n)


def _cache(kind, key):
    c = G.stats.setdefault('_contract_cache', {})
    return c.get((kind, key)), c


def sym_divmod(a, b, precise_bits=None):
    """(q, r) of floor division for a >= 0, b > 0.  Precise bvudiv/bvurem up to `precise_bits`
    bits of dividend; above that a contract: fresh q, r with 0 <= r < b and q in the interval
    quotient range (the identity a = q*b + r is NOT given to the solver; claims using the
    contract verify what is done with (q, r), and trust CPython's divmod)."""
    if precise_bits is None:
        precise_bits = G.stats.get('DIV_PRECISE_BITS', 40)
    (alo, ahi), (blo, bhi) = bounds(a), bounds(b)
    if not is_sym(a) and not is_sym(b):
        return divmod(a, b)
    if alo < 0 or blo <= 0:
        raise Unsupported('divmod contract needs a >= 0, b > 0')
    if ahi.bit_length() <= precise_bits:
        return binop(operator.floordiv, a, b), binop(operator.mod, a, b)
    at, bt = zt(a), zt(b)
    key = (at.get_id(), bt.get_id())
    hit, c = _cache('div', key)
    if hit is None:
        q = fresh_int('quot', alo // bhi, ahi // blo)
        r = fresh_int('rem', 0, min(ahi, bhi - 1))
        G.SIDE.append(z3.ULT(r.t, bt))
        # q = 0 iff a < b ; a < b -> r = a   (cheap exact facts)
        G.SIDE.append((q.t == bvv(0)) == z3.ULT(at, bt))
        c[('div', key)] = (q, r, at, bt)
        G.stats['abstract_divmods'] = G.stats.get('abstract_divmods', 0) + 1
        hit = c[('div', key)]
    return hit[0], hit[1]


def m_divmod_contract(eng, st, args, kw, fr):
    a, b = args
    if not has_sym([a, b]):
        try:
            return [(st, NORMAL, divmod(a, b))]
        except Exception as e:
            return [(st, RAISE, e)]
    G.CUR = (eng, st.pc)
    try:
        (alo, ahi), (blo, bhi) = bounds(a), bounds(b)
        if alo >= 0 and blo > 0:
            return [(st, NORMAL, sym_divmod(a, b))]
        q = binop(operator.floordiv, a, b)
        r = binop(operator.mod, a, b)
        return [(st, NORMAL, (q, r))]
    except ZeroDivisionError as e:
        return [(st, RAISE, e)]
    finally:
        G.CUR = None


def sym_sqrtrem(x, precise_bits=None):
    """(y, rem) with y = floor(sqrt(x)), rem = x - y*y, for x >= 0.
    Small x: defined precisely (y*y <= x < (y+1)^2 with bit-vector multiplication).
    Large x: contract y in the root interval, 0 <= rem <= 2y (the identity is trusted)."""
    if precise_bits is None:
        precise_bits = G.stats.get('SQRT_PRECISE_BITS', 28)
    if not is_sym(x):
        y = isqrt_int(x)
        return y, x - y * y
    lo, hi = bounds(x)
    if lo < 0:
        raise Unsupported('sqrt of possibly negative')
    xt = zt(x)
    key = xt.get_id()
    hit, c = _cache('sqrt', key)
    if hit is None:
        ylo, yhi = isqrt_int(lo), isqrt_int(hi)
        y = fresh_int('root', ylo, yhi)
        rem = fresh_int('srem', 0, 2 * yhi)
        G.SIDE.append(z3.ULE(rem.t, y.t + y.t))
        if hi.bit_length() <= precise_bits:
            G.SIDE.append(y.t * y.t + rem.t == xt)
            G.stats['precise_sqrts'] = G.stats.get('precise_sqrts', 0) + 1
        else:
            G.stats['abstract_sqrts'] = G.stats.get('abstract_sqrts', 0) + 1
        c[('sqrt', key)] = (y, rem, xt)
        hit = c[('sqrt', key)]
    return hit[0], hit[1]


def m_sqrtrem(eng, st, args, kw, fr):
    x = args[0]
    if not is_sym(x):
        y = isqrt_int(x)
        return [(st, NORMAL, (y, x - y * y))]
    return [(st, NORMAL, sym_sqrtrem(x))]


def m_isqrt(eng, st, args, kw, fr):
    x = args[0]
    if not is_sym(x):
        return [(st, NORMAL, isqrt_int(x))]
    return [(st, NORMAL, sym_sqrtrem(x)[0])]


def mp_models(contract_divmod=True, contract_sqrt=True):
    from mpmath.libmp import libintmath
    m = {}
    if contract_sqrt:
        m[libintmath.sqrtrem] = m_sqrtrem
        m[libintmath.isqrt] = m_isqrt
        m[libintmath.sqrtrem_python] = m_sqrtrem
        m[libintmath.isqrt_python] = m_isqrt
        m[libintmath.isqrt_small_python] = m_isqrt
    if contract_divmod:
        m[divmod] = m_divmod_contract
    return m
