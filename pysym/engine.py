"""pysym: an AST-level symbolic executor for the subset of Python used by mpmath's kernel.

It interprets the functions of the *live* /repo modules (source re-parsed on every run,
bytecode-checked against the running function objects).  Concrete things are executed by
CPython itself; only SInt/SBool (bit-vector terms with integer intervals) and, in abstract
mode, Unknown are symbolic.  States fork at symbolic branches and are merged again at
joins (env and heap overlay merged with ite).
"""
import ast
import builtins
import inspect
import operator
import sys
import time
import types

import z3

from . import srcmap
from .values import (SStr, G, SInt, SBool, Unknown, Unsupported, WidthError, HarnessError, Unmergeable,
                     is_sym, has_sym, has_unknown, bvv, zt, zb, mk_int, mk_bool, truth, bounds, binop,
                     neg, invert, not_, eq_val, cmp_ints, merge, fresh_bool, fresh_int)

sys.setrecursionlimit(100000)

NORMAL, RETURN, RAISE, BREAK, CONTINUE = range(5)

_MISSING = object()


class State:
    __slots__ = ('pc', 'env', 'heap', 'hver')

    def __init__(self, pc, env, heap=None, hver=0):
        self.pc = pc
        self.env = env
        self.heap = heap if heap is not None else {}
        self.hver = hver          # bumped on every heap write (identity of heap contents)

    def fork(self, extra):
        return State(self.pc + [extra], dict(self.env), dict(self.heap), self.hver)

    def with_env(self, env):
        return State(self.pc, env, self.heap, self.hver)

    def copy(self):
        return State(self.pc, dict(self.env), self.heap, self.hver)


class Frame:
    __slots__ = ('func', 'glob', 'cells', 'depth')

    def __init__(self, func, glob, cells, depth):
        self.func = func
        self.glob = glob
        self.cells = cells      # name -> Cell (closure cells of enclosing interpreted/native functions)
        self.depth = depth


class Cell:
    """closure cell for variables shared between interpreted nested functions"""
    __slots__ = ('v',)

    def __init__(self, v=_MISSING):
        self.v = v


class Closure:
    """A nested def/lambda created by interpreted code."""

    def __init__(self, node, frame, defaults, kwdefaults, cells, name):
        self.node = node
        self.frame = frame
        self.defaults = defaults
        self.kwdefaults = kwdefaults
        self.cells = cells
        self.__name__ = name

    def __repr__(self):
        return '<Closure %s>' % self.__name__


class BoundClosure:
    def __init__(self, clo, self_obj):
        self.clo = clo
        self.self_obj = self_obj


def is_mp_function(fn):
    return isinstance(fn, types.FunctionType) and (str(fn.__globals__.get('__name__', '')).startswith('mpmath')
                                                   or getattr(fn, '_pysym_interpret', False))


def is_mp_object(v):
    t = type(v)
    if t in (int, bool, str, tuple, list, dict, float, complex, type(None), SInt, SBool, Unknown):
        return False
    mod = getattr(t, '__module__', '') or ''
    return mod.startswith('mpmath')


def _free_vars(node):
    return None


class Engine:
    def __init__(self, models=None, max_unroll=80, abstract=False, query_timeout_ms=60000, max_depth=60):
        from .models import DEFAULT_MODELS
        self.models = dict(DEFAULT_MODELS)
        if models:
            self.models.update(models)
        self.max_unroll = max_unroll
        self.abstract = abstract
        G.ABSTRACT = abstract
        self.query_timeout_ms = query_timeout_ms
        self.max_depth = max_depth
        self.stats = dict(feas_queries=0, feas_time=0.0, forks=0, merges=0, calls=0)
        self.base = []              # global assumptions
        self.funcs = {}             # qualname -> info of every interpreted function
        self.cov = {}               # (file, lineno) -> set of arms reached ('T','F')
        self.returns = set()        # (file, lineno) of return statements reached
        self.feas_cache = {}
        self.no_merge_names = set()  # local variable names whose differing concrete values keep states forked
        self.const_override = {}     # {(function name, int constant): replacement} -- a documented cut (e.g. size thresholds)
        self.inline_policy = None    # abstract mode: callable(fn, depth) -> bool (inline) ; else stubbed as may-raise Unknown
        self.stubbed = set()
        self.lenient = []           # abstract mode: constructs replaced by Unknown

    # ------------------------------------------------------------------ solver helpers
    def feasible(self, pc, extra=None):
        self.stats['feas_queries'] += 1
        t0 = time.time()
        sv = z3.SolverFor('QF_BV')
        sv.set('timeout', self.query_timeout_ms)
        sv.add(*self.base)
        sv.add(*G.SIDE)
        sv.add(*pc)
        if extra is not None:
            sv.add(extra)
        r = sv.check()
        self.stats['feas_time'] += time.time() - t0
        if r == z3.unknown:
            raise Unsupported('solver unknown in feasibility query')
        return r == z3.sat

    def branch(self, st, cond):
        """cond: bool/SBool -> list of (state, bool) for the feasible sides"""
        if isinstance(cond, Unknown):
            b = fresh_bool('ub')
            self.stats['forks'] += 1
            return [(st.fork(b.t), True), (st.fork(z3.Not(b.t)), False)]
        if cond is True or cond is False:
            return [(st, cond)]
        c = cond.t
        if self.abstract:
            # abstract mode: no pruning queries; both sides are explored and infeasible paths die in the final query
            self.stats['forks'] += 1
            return [(st.fork(c), True), (st.fork(z3.Not(c)), False)]
        t_ok = self.feasible(st.pc, c)
        f_ok = self.feasible(st.pc, z3.Not(c)) if t_ok else True
        if t_ok and f_ok:
            self.stats['forks'] += 1
            return [(st.fork(c), True), (st.fork(z3.Not(c)), False)]
        if t_ok:
            return [(st, True)]
        if f_ok:
            return [(st, False)]
        return []

    def truth_outs(self, st, v, fr):
        """Python truth of an arbitrary value -> outcomes (state, NORMAL, bool|SBool|Unknown)"""
        if isinstance(v, Unknown):
            return [(st, NORMAL, v)]
        if isinstance(v, SStr):
            return [(st, NORMAL, len(v) > 0)]
        if isinstance(v, list):
            return [(st, NORMAL, len(self.overlay_seq(st, v)) > 0)]
        if isinstance(v, (SInt, SBool, bool, int, str, tuple, dict, type(None), float)):
            return [(st, NORMAL, truth(v))]
        if is_mp_object(v):
            for name in ('__bool__', '__nonzero__', '__len__'):
                m = self.find_class_attr(type(v), name)
                if m is not _MISSING and is_mp_function(m):
                    outs = self.call(st, m, [v], {}, fr)
                    return self.lift(outs, lambda s, r: [(s, NORMAL, truth(r) if not isinstance(r, Unknown) else r)])
        return [(st, NORMAL, bool(v))]

    # ------------------------------------------------------------------ heap overlay
    def heap_get(self, st, obj, key):
        return st.heap.get((id(obj), key), _MISSING)

    def heap_set(self, st, obj, key, val):
        # copy-on-write: states that were derived from one another without a fork may share the dict object
        st.heap = dict(st.heap)
        st.heap[(id(obj), key)] = (obj, val)
        st.hver += 1
        G.stats['heap_writes'] = G.stats.get('heap_writes', 0) + 1

    def find_class_attr(self, cls, name):
        for k in cls.__mro__:
            if name in k.__dict__:
                return k.__dict__[name]
        return _MISSING

    def load_attr(self, st, obj, name, fr):
        """-> outcomes"""
        if isinstance(obj, Unknown):
            return [(st, NORMAL, Unknown('attr', obj.tag))]
        if isinstance(obj, SStr):
            from .strings import SStrMethod
            return [(st, NORMAL, SStrMethod(obj, name))]
        if isinstance(obj, (SInt, SBool)):
            raise Unsupported('attribute %s of symbolic int' % name)
        if isinstance(obj, Closure):
            raise Unsupported('attribute of closure')
        h = st.heap.get((id(obj), name))
        if h is not None:
            if h[1] is _MISSING:
                return [(st, RAISE, AttributeError(name))]
            return [(st, NORMAL, h[1])]
        if not isinstance(obj, type) and not isinstance(obj, types.ModuleType):
            d = self.find_class_attr(type(obj), name)
            if isinstance(d, property) and d.fget is not None and is_mp_function(d.fget):
                return self.call(st, d.fget, [obj], {}, fr)
        try:
            return [(st, NORMAL, getattr(obj, name))]
        except AttributeError as e:
            return [(st, RAISE, e)]

    def store_attr(self, st, obj, name, val, fr):
        if isinstance(obj, Unknown):
            return [(st, NORMAL, None)]
        if not isinstance(obj, type):
            d = self.find_class_attr(type(obj), name)
            if isinstance(d, property):
                if d.fset is None:
                    return [(st, RAISE, AttributeError("can't set attribute"))]
                if is_mp_function(d.fset):
                    return self.lift(self.call(st, d.fset, [obj, val], {}, fr), lambda s, r: [(s, NORMAL, None)])
                raise Unsupported('native property setter %s' % name)
            sa = self.find_class_attr(type(obj), '__setattr__')
            if sa is not _MISSING and is_mp_function(sa):
                return self.lift(self.call(st, sa, [obj, name, val], {}, fr), lambda s, r: [(s, NORMAL, None)])
        self.heap_set(st, obj, name, val)
        return [(st, NORMAL, None)]

    def load_item(self, st, c, i):
        h = st.heap.get((id(c), ('item', i if not is_sym(i) else None)))
        if h is not None and not is_sym(i):
            return h[1]
        return _MISSING

    # ------------------------------------------------------------------ function source
    def get_ast(self, fn):
        node, info = srcmap.lookup(fn)
        self.funcs[info['name']] = info
        return node

    # ------------------------------------------------------------------ calls
    def call(self, st, fn, args, kwargs, fr=None):
        """-> list of (state, NORMAL|RAISE, value)"""
        self.stats['calls'] += 1
        depth = (fr.depth + 1) if fr is not None else 0
        if depth > self.max_depth:
            raise Unsupported('call depth exceeded')
        try:
            m = self.models.get(fn)
        except TypeError:
            m = None
        if m is not None:
            return m(self, st, list(args), dict(kwargs), fr)
        if isinstance(fn, Unknown):
            return self.unknown_call(st, fn, args, kwargs)
        if type(fn).__name__ == 'SStrMethod':
            return fn.invoke(self, st, args, kwargs)
        if type(fn).__name__ == 'Identity' and len(args) == 1:
            return [(st, NORMAL, args[0])]
        if isinstance(fn, Closure):
            return self.call_closure(st, fn, args, kwargs, depth)
        if isinstance(fn, BoundClosure):
            return self.call_closure(st, fn.clo, [fn.self_obj] + list(args), kwargs, depth)
        if isinstance(fn, types.MethodType):
            return self.call(st, fn.__func__, [fn.__self__] + list(args), kwargs, fr)
        if isinstance(fn, types.FunctionType):
            if is_mp_function(fn):
                if self.abstract and self.inline_policy is not None and not self.inline_policy(fn, depth):
                    self.stubbed.add(getattr(fn, '__qualname__', '?'))
                    return self.unknown_call(st, Unknown('stub'), args, kwargs)
                return self.call_py(st, fn, args, kwargs, depth)
        elif isinstance(fn, type):
            r = self.call_class(st, fn, args, kwargs, fr)
            if r is not None:
                return r
        elif is_mp_object(fn):
            c = self.find_class_attr(type(fn), '__call__')
            if c is not _MISSING and is_mp_function(c):
                return self.call(st, c, [fn] + list(args), kwargs, fr)
        elif isinstance(fn, (staticmethod, classmethod)):
            raise Unsupported('raw static/classmethod object call')
        return self.native_call(st, fn, args, kwargs)

    def native_call(self, st, fn, args, kwargs):
        if '__unknown_kwargs__' in kwargs:
            return self.unknown_call(st, Unknown('native'), args, {})
        owner = getattr(fn, '__self__', None)
        if isinstance(owner, list) and not kwargs and getattr(fn, '__name__', '') in ('append', 'extend') and len(args) == 1 and (
                has_sym(list(args)) or (id(owner), 'contents') in st.heap):
            # functional model of list growth: the new contents live in the heap overlay of this path
            cur = list(self.overlay_seq(st, owner))
            if fn.__name__ == 'append':
                cur.append(args[0])
            else:
                if is_sym(args[0]) or not isinstance(args[0], (list, tuple)):
                    raise Unsupported('list.extend with a symbolic iterable')
                cur.extend(self.overlay_seq(st, args[0]))
            self.heap_set(st, owner, 'contents', cur)
            return [(st, NORMAL, None)]
        if has_sym(list(args)) or has_sym(list(kwargs.values())):
            raise Unsupported('native call %s with symbolic arguments' % getattr(fn, '__name__', fn))
        if any(type(a).__name__ in ('SFloat', 'SComplex', 'SHex', 'SLog2', 'SDec') for a in list(args) + list(kwargs.values())):
            # model objects (dyadic float model etc.) must never reach native code: it would fail on their Python type and the
            # failure would be mistaken for the real function's behaviour
            raise Unsupported('native call %s with a modelled value (%s)' % (getattr(fn, '__name__', fn), ', '.join(sorted({type(a).__name__ for a in args}))))
        if has_unknown(list(args)) or has_unknown(list(kwargs.values())):
            return self.unknown_call(st, Unknown('native'), args, kwargs)
        if any(isinstance(a, (Closure, BoundClosure)) for a in args):
            raise Unsupported('closure passed to native call %s' % getattr(fn, '__name__', fn))
        try:
            return [(st, NORMAL, fn(*args, **kwargs))]
        except Exception as e:
            return [(st, RAISE, e)]

    def unknown_call(self, st, fn, args, kwargs):
        """abstract mode: an unknown callee returns an Unknown or raises (fresh Boolean)"""
        if not self.abstract:
            raise Unsupported('call of unknown value')
        b = fresh_bool('raises')
        tag = None
        return [(st.fork(z3.Not(b.t)), NORMAL, Unknown('call', tag)),
                (st.fork(b.t), RAISE, Unknown('exc'))]

    def call_class(self, st, cls, args, kwargs, fr):
        new = self.find_class_attr(cls, '__new__')
        init = self.find_class_attr(cls, '__init__')
        new_f = new.__func__ if isinstance(new, staticmethod) else new
        interp_new = is_mp_function(new_f)
        interp_init = is_mp_function(init)
        if not interp_new and not interp_init:
            return None
        if issubclass(cls, BaseException) and not interp_new and not has_sym(list(args)):
            return None
        if interp_new:
            outs = self.call(st, new_f, [cls] + list(args), kwargs, fr)
        else:
            try:
                outs = [(st, NORMAL, cls.__new__(cls))]
            except Exception:
                return None

        def k(s, obj):
            if interp_init and isinstance(obj, cls):
                return self.lift(self.call(s, init, [obj] + list(args), kwargs, fr), lambda s2, r: [(s2, NORMAL, obj)])
            return [(s, NORMAL, obj)]
        return self.lift(outs, k)

    def bind_args(self, node_args, defaults, kwdefaults, args, kwargs, name):
        """Python argument binding for an ast.arguments -> env dict"""
        a = node_args
        pos = [x.arg for x in a.posonlyargs] + [x.arg for x in a.args]
        env = {}
        args = list(args)
        kwargs = dict(kwargs)
        n = len(pos)
        for i, nm in enumerate(pos):
            if i < len(args):
                env[nm] = args[i]
        extra = args[n:]
        if a.vararg is not None:
            env[a.vararg.arg] = tuple(extra)
        elif extra:
            raise TypeError('%s() takes %d positional arguments but %d were given' % (name, n, len(args)))
        for nm in list(kwargs):
            if nm in pos or nm in [x.arg for x in a.kwonlyargs]:
                if nm in env:
                    raise TypeError('%s() got multiple values for argument %r' % (name, nm))
                env[nm] = kwargs.pop(nm)
        if a.kwarg is not None:
            env[a.kwarg.arg] = kwargs
        elif kwargs:
            raise TypeError('%s() got an unexpected keyword argument %r' % (name, list(kwargs)[0]))
        nd = len(defaults)
        for i, nm in enumerate(pos):
            if nm not in env:
                j = i - (n - nd)
                if j < 0:
                    raise TypeError('%s() missing required argument %r' % (name, nm))
                env[nm] = defaults[j]
        for x in a.kwonlyargs:
            if x.arg not in env:
                if x.arg in kwdefaults:
                    env[x.arg] = kwdefaults[x.arg]
                else:
                    raise TypeError('%s() missing keyword-only argument %r' % (name, x.arg))
        return env

    def bind_unknown(self, node_args, args, kwargs):
        """abstract mode: a call made with *Unknown / **Unknown binds every parameter that is not given explicitly to Unknown"""
        a = node_args
        pos = [x.arg for x in a.posonlyargs] + [x.arg for x in a.args]
        env = {}
        star = False
        i = 0
        for v in args:
            if isinstance(v, Unknown) and v.why == 'star':
                star = True
                break
            if i < len(pos):
                env[pos[i]] = v
            i += 1
        for nm in pos + [x.arg for x in a.kwonlyargs]:
            if nm not in env:
                env[nm] = kwargs[nm] if nm in kwargs else Unknown('param')
        if a.vararg is not None:
            env[a.vararg.arg] = Unknown('varargs')
        if a.kwarg is not None:
            env[a.kwarg.arg] = Unknown('kwargs')
        return env

    def call_py(self, st, fn, args, kwargs, depth):
        node = self.get_ast(fn)
        if self.abstract and (any(isinstance(v, Unknown) and v.why == 'star' for v in args) or '__unknown_kwargs__' in kwargs):
            kwargs = {k: v for k, v in kwargs.items() if k != '__unknown_kwargs__'}
            env = self.bind_unknown(node.args, args, kwargs)
            cells = {}
            if fn.__closure__:
                for nm, c in zip(fn.__code__.co_freevars, fn.__closure__):
                    try:
                        cells[nm] = Cell(c.cell_contents)
                    except ValueError:
                        cells[nm] = Cell()
            return self.run_body(st, node, env, Frame(fn, fn.__globals__, cells, depth))
        try:
            env = self.bind_args(node.args, fn.__defaults__ or (), fn.__kwdefaults__ or {}, args, kwargs, fn.__name__)
        except TypeError as e:
            return [(st, RAISE, e)]
        cells = {}
        if fn.__closure__:
            for nm, c in zip(fn.__code__.co_freevars, fn.__closure__):
                try:
                    cells[nm] = Cell(c.cell_contents)
                except ValueError:
                    cells[nm] = Cell()
        frame = Frame(fn, fn.__globals__, cells, depth)
        return self.run_body(st, node, env, frame)

    def call_closure(self, st, clo, args, kwargs, depth):
        node = clo.node
        if self.abstract and (any(isinstance(v, Unknown) and v.why == 'star' for v in args) or '__unknown_kwargs__' in kwargs):
            kwargs = {k: v for k, v in kwargs.items() if k != '__unknown_kwargs__'}
            env = self.bind_unknown(node.args, args, kwargs)
            return self.run_body(st, node, env, Frame(clo.frame.func, clo.frame.glob, clo.cells, depth))
        try:
            env = self.bind_args(node.args, clo.defaults, clo.kwdefaults, args, kwargs, clo.__name__)
        except TypeError as e:
            return [(st, RAISE, e)]
        frame = Frame(clo.frame.func, clo.frame.glob, clo.cells, depth)
        return self.run_body(st, node, env, frame)

    def run_body(self, st, node, env, frame):
        # variables captured by nested functions live in cells
        shared = getattr(node, '_pysym_shared', None)
        if shared is None:
            shared = _shared_names(node)
            node._pysym_shared = shared
        if shared:
            frame = Frame(frame.func, frame.glob, dict(frame.cells), frame.depth)
            for nm in shared:
                frame.cells[nm] = Cell(env.pop(nm, _MISSING))
        callee = State(st.pc, env, st.heap, st.hver)
        callee.heap = dict(st.heap)
        if isinstance(node, ast.Lambda):
            outs = [(s, RETURN if k == NORMAL else k, v) for s, k, v in self.eval_x(callee, node.body, frame)]
        else:
            outs = self.exec_block(callee, node.body, frame)
        res = []
        for s, kind, val in outs:
            ns = State(s.pc, st.env, s.heap, s.hver)
            if kind == NORMAL:
                res.append((ns, NORMAL, None))
            elif kind == RETURN:
                res.append((ns, NORMAL, val))
            elif kind == RAISE:
                res.append((ns, RAISE, val))
            else:
                raise Unsupported('break/continue outside loop')
        return self.merge_outcomes(st, res)

    # ------------------------------------------------------------------ merging
    def _heap_merge(self, st0, states, conds):
        """merge heap overlays of sibling states; returns merged heap or raises Unmergeable"""
        keys = set()
        for s in states:
            keys |= set(s.heap)
        heap = {}
        for k in keys:
            vals = []
            obj = None
            for s in states:
                h = s.heap.get(k)
                if h is None:
                    if G.ABSTRACT:
                        vals.append(Unknown('join'))
                        continue
                    raise Unmergeable()     # written in one branch only and no prior overlay value
                obj = h[0]
                vals.append(h[1])
            v = vals[-1]
            for x, c in zip(reversed(vals[:-1]), reversed(conds[:-1])):
                if x is _MISSING or v is _MISSING:
                    if x is not v:
                        if G.ABSTRACT:
                            v = Unknown('join')
                            continue
                        raise Unmergeable()
                    continue
                v = merge(c, x, v)
            heap[k] = (obj, v)
        return heap

    def _prefill(self, st0, states):
        """make heaps comparable: a key written in some branch gets its pre-branch value elsewhere"""
        keys = set()
        for s in states:
            keys |= set(s.heap)
        for s in states:
            for k in keys:
                if k not in s.heap:
                    if k in st0.heap:
                        s.heap[k] = st0.heap[k]
                    else:
                        obj = None
                        for s2 in states:
                            if k in s2.heap:
                                obj = s2.heap[k][0]
                                break
                        name = k[1]
                        if isinstance(name, str):
                            try:
                                cur = getattr(obj, name)
                            except AttributeError:
                                cur = _MISSING
                        else:
                            try:
                                cur = obj[name[1]]
                            except Exception:
                                cur = _MISSING
                        s.heap[k] = (obj, cur)

    def _conds(self, st0, states):
        n0 = len(st0.pc)
        return [fast_and(s.pc[n0:]) if len(s.pc) > n0 + 1 else (s.pc[n0] if len(s.pc) > n0 else z3.BoolVal(True)) for s in states]

    def merge_outcomes(self, st0, outs):
        """merge outcomes of one kind that differ only in value/heap, by ite on path conditions"""
        if len(outs) <= 1:
            return outs
        res = []
        for kind in (NORMAL, RAISE):
            group = [o for o in outs if o[1] == kind]
            if len(group) <= 1:
                res.extend(group)
                continue
            if kind == RAISE:
                # merge only abstract-mode Unknown exceptions / same exception types with same args
                res.extend(self._merge_raises(st0, group))
                continue
            res.extend(self._merge_group(st0, group, kind))
        return res

    def _merge_group(self, st0, group, kind):
        states = [o[0] for o in group]
        conds = self._conds(st0, states)
        try:
            if any(s.hver != st0.hver for s in states):
                self._prefill(st0, states)
                heap = self._heap_merge(st0, states, conds)
                hver = max(s.hver for s in states) + 1
            else:
                heap, hver = states[0].heap, st0.hver
            acc = group[-1][2]
            for (s, _, v), c in zip(reversed(group[:-1]), reversed(conds[:-1])):
                acc = merge(c, v, acc)
        except Unmergeable:
            return group
        self.stats['merges'] += 1
        ns = State(st0.pc + [z3.simplify(fast_or(conds))], st0.env, heap, hver)
        return [(ns, kind, acc)]

    def _merge_raises(self, st0, group):
        buckets = {}
        order = []
        for o in group:
            e = o[2]
            if G.ABSTRACT:
                key = 'any'
            elif isinstance(e, Unknown):
                key = 'unknown'
            elif isinstance(e, BaseException) and not has_sym(list(e.args)):
                key = (type(e), repr(e.args))
            else:
                key = id(e)
            if key not in buckets:
                buckets[key] = []
                order.append(key)
            buckets[key].append(o)
        res = []
        for key in order:
            g = buckets[key]
            if len(g) == 1:
                res.extend(g)
                continue
            rep = g[0][2] if not G.ABSTRACT else Unknown('exc')
            g2 = [(s, RAISE, None) for s, _, _ in g]
            m = self._merge_group(st0, g2, RAISE)
            if len(m) == 1:
                res.append((m[0][0], RAISE, rep))
            else:
                res.extend(g)
        return res

    def merge_states(self, st0, states):
        """merge sibling states (same parent st0) differing in local env / heap"""
        if len(states) <= 1:
            return states
        conds = self._conds(st0, states)
        keys = set()
        for s in states:
            keys |= set(s.env)
        try:
            env = {}
            for k in keys:
                if any(k not in s.env for s in states):
                    raise Unmergeable()
                if k in self.no_merge_names and any(s.env[k] is not states[0].env[k] and s.env[k] != states[0].env[k] for s in states[1:]):
                    raise Unmergeable()
                v = states[-1].env[k]
                for s, c in zip(reversed(states[:-1]), reversed(conds[:-1])):
                    v = merge(c, s.env[k], v)
                env[k] = v
            if any(s.hver != st0.hver for s in states):
                self._prefill(st0, states)
                heap = self._heap_merge(st0, states, conds)
                hver = max(s.hver for s in states) + 1
            else:
                heap, hver = states[0].heap, st0.hver
        except Unmergeable:
            return states
        self.stats['merges'] += 1
        return [State(st0.pc + [z3.simplify(fast_or(conds))], env, heap, hver)]

    # ------------------------------------------------------------------ statements
    def lift(self, outs, k):
        res = []
        for s, kind, v in outs:
            if kind == NORMAL:
                res.extend(k(s, v))
            else:
                res.append((s, kind, v))
        return res

    def exec_block(self, st, stmts, fr):
        live = [st]
        done = []
        for stmt in stmts:
            nxt = []
            for s in live:
                for o in self.exec_stmt(s, stmt, fr):
                    if o[1] == NORMAL:
                        nxt.append(o[0])
                    else:
                        done.append(o)
            live = nxt
            if self.abstract:
                if len(live) > 1:
                    live = self.merge_states(st, live)
                if len(done) > 3:
                    done = self._merge_nonnormal(st, done)
            if not live:
                break
        return [(s, NORMAL, None) for s in live] + done

    def exec_stmt(self, st, node, fr):
        m = getattr(self, 'st_' + type(node).__name__, None)
        if m is None:
            if self.abstract and not _writes_precision(node):
                self.lenient.append('%s:%s skipped statement %s' % (getattr(fr.func, '__qualname__', '?'), node.lineno, type(node).__name__))
                return [(st, NORMAL, None)]
            raise Unsupported('statement ' + type(node).__name__)
        if not self.abstract:
            return m(st, node, fr)
        try:
            return m(st, node, fr)
        except WidthError:
            raise
        except Unsupported as ex:
            if _writes_precision(node):
                raise
            self.lenient.append('%s:%s skipped %s (%s)' % (getattr(fr.func, '__qualname__', '?'), node.lineno, type(node).__name__, str(ex)[:60]))
            return [(st, NORMAL, None)]

    def st_Pass(self, st, node, fr):
        return [(st, NORMAL, None)]

    def st_Global(self, st, node, fr):
        env = st.env
        g = env.get('__globals_decl__', frozenset())
        st = st.copy()
        st.env['__globals_decl__'] = g | frozenset(node.names)
        return [(st, NORMAL, None)]

    def st_Nonlocal(self, st, node, fr):
        return [(st, NORMAL, None)]

    def st_Import(self, st, node, fr):
        st = st.copy()
        for a in node.names:
            try:
                mod = __import__(a.name)
            except ImportError as ex:
                return [(st, RAISE, ex)]
            if a.asname:
                for part in a.name.split('.')[1:]:
                    mod = getattr(mod, part)
                st.env[a.asname] = mod
            else:
                st.env[a.name.split('.')[0]] = mod
        return [(st, NORMAL, None)]

    def st_ImportFrom(self, st, node, fr):
        import importlib
        pkg = fr.glob.get('__package__') or fr.glob.get('__name__', '').rpartition('.')[0]
        name = ('.' * node.level) + (node.module or '')
        try:
            mod = importlib.import_module(name, pkg) if node.level else importlib.import_module(name)
        except ImportError as e:
            return [(st, RAISE, e)]
        st = st.copy()
        for a in node.names:
            try:
                v = getattr(mod, a.name)
            except AttributeError:
                try:
                    v = importlib.import_module(name + '.' + a.name, pkg)
                except ImportError as e:
                    return [(st, RAISE, e)]
            self.assign_name(st, a.asname or a.name, v, fr)
        return [(st, NORMAL, None)]

    def st_Expr(self, st, node, fr):
        return self.lift(self.eval_x(st, node.value, fr), lambda s, v: [(s, NORMAL, None)])

    def st_Return(self, st, node, fr):
        self.returns.add((getattr(fr.func, '__qualname__', '?'), node.lineno))
        if node.value is None:
            return [(st, RETURN, None)]
        return self.lift(self.eval_x(st, node.value, fr), lambda s, v: [(s, RETURN, v)])

    def st_Raise(self, st, node, fr):
        if node.exc is None:
            cur = st.env.get('__cur_exc__', None)
            if cur is None:
                raise Unsupported('bare raise outside except')
            return [(st, RAISE, cur)]

        def k(s, v):
            if isinstance(v, type):
                outs = self.call(s, v, [], {}, fr)
                return self.lift(outs, lambda s2, e: [(s2, RAISE, e)])
            return [(s, RAISE, v)]
        return self.lift(self.eval_x(st, node.exc, fr), k)

    def st_Break(self, st, node, fr):
        return [(st, BREAK, None)]

    def st_Continue(self, st, node, fr):
        return [(st, CONTINUE, None)]

    def st_Assert(self, st, node, fr):
        def k(s, c):
            res = []
            for s2, kind, t in self.truth_outs(s, c, fr):
                if kind != NORMAL:
                    res.append((s2, kind, t))
                    continue
                for s3, b in self.branch(s2, t):
                    if b:
                        res.append((s3, NORMAL, None))
                    else:
                        res.append((s3, RAISE, AssertionError('assert at line %d' % node.lineno)))
            return res
        return self.lift(self.eval_x(st, node.test, fr), k)

    def st_Delete(self, st, node, fr):
        st = st.copy()
        for t in node.targets:
            if isinstance(t, ast.Name):
                st.env.pop(t.id, None)
            elif isinstance(t, ast.Subscript) and not isinstance(t.slice, ast.Slice) and len(node.targets) == 1:
                # del d[k] on a dict with a concrete key: the overlay records the key as absent
                def k(s, vs):
                    c, i = vs
                    if not isinstance(c, dict) or has_sym(i) or is_sym(i):
                        raise Unsupported('del of item of %s' % type(c).__name__)
                    try:
                        present = i in c
                    except TypeError as e:
                        return [(s, RAISE, e)]
                    h = s.heap.get((id(c), ('item', i)))
                    if h is not None:
                        present = h[1] is not _MISSING
                    if not present:
                        return [(s, RAISE, KeyError(i))]
                    s = s.copy()
                    self.heap_set(s, c, ('item', i), _MISSING)
                    return [(s, NORMAL, None)]
                return self.eval_list(st, [t.value, t.slice], fr, k)
            else:
                raise Unsupported('del of non-name')
        return [(st, NORMAL, None)]

    def assign_name(self, st, name, val, fr):
        if name in fr.cells and name not in st.env:
            fr.cells[name].v = val      # NOTE: cells are shared across forks (see DESIGN: closures)
            return
        if name in st.env.get('__globals_decl__', ()):
            self.heap_set(st, fr.glob, ('global', name), val)
            return
        st.env[name] = val

    def assign(self, st, target, val, fr):
        """-> outcomes (state NORMAL None) ; st is already a private copy"""
        if isinstance(target, ast.Name):
            self.assign_name(st, target.id, val, fr)
            return [(st, NORMAL, None)]
        if isinstance(target, (ast.Tuple, ast.List)):
            if isinstance(val, Unknown):
                val = [Unknown('unpack', val.tag) for _ in target.elts]
            if isinstance(val, list):
                val = self.overlay_seq(st, val)
            if not isinstance(val, (tuple, list)):
                if isinstance(val, (SInt, SBool)):
                    return [(st, RAISE, TypeError('cannot unpack non-iterable int object'))]
                if has_sym(val):
                    raise Unsupported('unpack symbolic')
                try:
                    val = tuple(val)
                except TypeError as e:
                    return [(st, RAISE, e)]
            if any(isinstance(e, ast.Starred) for e in target.elts):
                raise Unsupported('starred unpack')
            if len(val) != len(target.elts):
                return [(st, RAISE, ValueError('unpack length mismatch'))]
            outs = [(st, NORMAL, None)]
            for t, v in zip(target.elts, val):
                outs = self.lift(outs, lambda s, _, t=t, v=v: self.assign(s, t, v, fr))
            return outs
        if isinstance(target, ast.Attribute):
            return self.lift(self.eval_x(st, target.value, fr),
                             lambda s, obj: self.store_attr(s.copy() if False else s, obj, target.attr, val, fr))
        if isinstance(target, ast.Subscript):
            def k(s, vs):
                c, i = vs
                return self.store_item(s, c, i, val, fr)
            if isinstance(target.slice, ast.Slice):
                raise Unsupported('slice assignment')
            return self.eval_list(st, [target.value, target.slice], fr, k)
        raise Unsupported('assign target ' + type(target).__name__)

    def store_item(self, st, c, i, val, fr):
        if isinstance(c, Unknown):
            return [(st, NORMAL, None)]
        if is_sym(i):
            raise Unsupported('store to symbolic index')
        if is_mp_object(c):
            si = self.find_class_attr(type(c), '__setitem__')
            if si is not _MISSING and is_mp_function(si):
                return self.lift(self.call(st, si, [c, i, val], {}, fr), lambda s, r: [(s, NORMAL, None)])
        if isinstance(c, list) and (id(c), 'contents') in st.heap:
            cur = list(self.overlay_seq(st, c))
            try:
                cur[i] = val
            except (IndexError, TypeError) as e:
                return [(st, RAISE, e)]
            self.heap_set(st, c, 'contents', cur)
            return [(st, NORMAL, None)]
        if isinstance(c, (list, dict)):
            if isinstance(c, list) and not (-len(c) <= i < len(c)):
                return [(st, RAISE, IndexError('list assignment index out of range'))]
            if isinstance(c, list) and i < 0:
                i += len(c)
            try:
                hash(i)
            except TypeError as e:
                return [(st, RAISE, e)]
            self.heap_set(st, c, ('item', i), val)
            return [(st, NORMAL, None)]
        raise Unsupported('item assignment on %s' % type(c).__name__)

    def st_Assign(self, st, node, fr):
        def k(s, v):
            s = s.copy()
            outs = [(s, NORMAL, None)]
            for t in node.targets:
                outs = self.lift(outs, lambda s2, _, t=t: self.assign(s2, t, v, fr))
            return outs
        return self.lift(self.eval_x(st, node.value, fr), k)

    def st_AnnAssign(self, st, node, fr):
        if node.value is None:
            return [(st, NORMAL, None)]
        return self.lift(self.eval_x(st, node.value, fr), lambda s, v: self.assign(s.copy(), node.target, v, fr))

    def st_AugAssign(self, st, node, fr):
        t = node.target
        if isinstance(t, ast.Name):
            load = ast.Name(id=t.id, ctx=ast.Load())
        elif isinstance(t, ast.Attribute):
            load = ast.Attribute(value=t.value, attr=t.attr, ctx=ast.Load())
        elif isinstance(t, ast.Subscript):
            load = ast.Subscript(value=t.value, slice=t.slice, ctx=ast.Load())
        else:
            raise Unsupported('augassign target')
        ast.copy_location(load, t)
        binnode = ast.BinOp(left=load, op=node.op, right=node.value)
        ast.copy_location(binnode, node)
        binnode._inplace = True
        return self.lift(self.eval_x(st, binnode, fr), lambda s, v: self.assign(s.copy(), t, v, fr))

    def st_If(self, st, node, fr):
        res = []
        key = (getattr(fr.func, '__qualname__', '?'), node.lineno)
        for s, kind, c in self.eval_x(st, node.test, fr):
            if kind != NORMAL:
                res.append((s, kind, c))
                continue
            for s1, kind1, t in self.truth_outs(s, c, fr):
                if kind1 != NORMAL:
                    res.append((s1, kind1, t))
                    continue
                sides = self.branch(s1, t)
                outs = []
                for s2, b in sides:
                    self.cov.setdefault(key, set()).add('T' if b else 'F')
                    if len(sides) > 1:
                        self.refine(s2, node.test, b)
                    outs.extend(self.exec_block(s2, node.body if b else node.orelse, fr))
                normals = [o[0] for o in outs if o[1] == NORMAL]
                others = [o for o in outs if o[1] != NORMAL]
                if len(normals) > 1:
                    normals = self.merge_states(s1, normals)
                if len(others) > 1:
                    others = self._merge_nonnormal(s1, others)
                res.extend([(x, NORMAL, None) for x in normals] + others)
        return res

    def refine(self, st, test, taken):
        """interval refinement of a local variable after branching on `name <op> constant`"""
        if isinstance(test, ast.UnaryOp) and isinstance(test.op, ast.Not):
            return self.refine(st, test.operand, not taken)
        if isinstance(test, ast.Name):
            v = st.env.get(test.id)
            if isinstance(v, SInt) and not taken:
                pass
            return
        if not (isinstance(test, ast.Compare) and len(test.ops) == 1 and isinstance(test.left, ast.Name)
                and isinstance(test.comparators[0], ast.Constant) and type(test.comparators[0].value) is int):
            return
        v = st.env.get(test.left.id)
        if not isinstance(v, SInt):
            return
        c = test.comparators[0].value
        op = type(test.ops[0])
        if not taken:
            op = {ast.Lt: ast.GtE, ast.LtE: ast.Gt, ast.Gt: ast.LtE, ast.GtE: ast.Lt, ast.Eq: ast.NotEq, ast.NotEq: ast.Eq}.get(op)
        lo, hi = v.lo, v.hi
        if op is ast.Lt: hi = min(hi, c - 1)
        elif op is ast.LtE: hi = min(hi, c)
        elif op is ast.Gt: lo = max(lo, c + 1)
        elif op is ast.GtE: lo = max(lo, c)
        elif op is ast.Eq: lo = hi = c
        else:
            return
        if lo > hi:
            return
        st.env[test.left.id] = c if (op is ast.Eq) else SInt(v.t, lo, hi)

    def _merge_nonnormal(self, st0, others):
        """merge RETURN outcomes of sibling branches (values by ite), keep the rest"""
        rets = [o for o in others if o[1] == RETURN]
        rest = [o for o in others if o[1] != RETURN]
        if len(rets) > 1:
            # env at return is irrelevant for the caller; merge values + heap
            g = [(State(s.pc, st0.env, s.heap, s.hver), k, v) for s, k, v in rets]
            rets = self._merge_group(st0, g, RETURN)
        raises = [o for o in rest if o[1] == RAISE]
        if len(raises) > 1 and self.abstract:
            rest = [o for o in rest if o[1] != RAISE] + self._merge_raises(st0, [(State(s.pc, st0.env, s.heap, s.hver), k, v) for s, k, v in raises])
        return rets + rest

    def st_While(self, st, node, fr):
        res = []
        live = [st]
        key = (getattr(fr.func, '__qualname__', '?'), node.lineno)
        bound = self.max_unroll if not self.abstract else 2
        for it in range(bound + 1):
            if not live:
                break
            if it == bound:
                if self.abstract:
                    # abstract mode: loops are explored 0..bound times; remaining states exit
                    for s0 in live:
                        res.append((s0, NORMAL, None))
                    G.stats['loops_cut'] = G.stats.get('loops_cut', 0) + 1
                    break
                raise Unsupported('loop bound %d exceeded at %s:%d' % (bound, key[0], node.lineno))
            nxt = []
            if it >= 3 and not self.abstract:
                # a loop that keeps running on concrete values must still be on a feasible path
                live = [s0 for s0 in live if self.feasible(s0.pc)]
            for s0 in live:
                for s, kind, c in self.eval_x(s0, node.test, fr):
                    if kind != NORMAL:
                        res.append((s, kind, c))
                        continue
                    for s1, kind1, t in self.truth_outs(s, c, fr):
                        if kind1 != NORMAL:
                            res.append((s1, kind1, t))
                            continue
                        for s2, b in self.branch(s1, t):
                            self.cov.setdefault(key, set()).add('T' if b else 'F')
                            if not b:
                                if node.orelse:
                                    res.extend(self.exec_block(s2, node.orelse, fr))
                                else:
                                    res.append((s2, NORMAL, None))
                                continue
                            for o in self.exec_block(s2, node.body, fr):
                                if o[1] in (NORMAL, CONTINUE):
                                    nxt.append(o[0])
                                elif o[1] == BREAK:
                                    res.append((o[0], NORMAL, None))
                                else:
                                    res.append(o)
            if len(nxt) > 1:
                nxt = self.merge_states(st, nxt) if all(len(s.pc) >= len(st.pc) for s in nxt) else nxt
            live = nxt
        normals = [o[0] for o in res if o[1] == NORMAL]
        others = [o for o in res if o[1] != NORMAL]
        if len(normals) > 1:
            normals = self.merge_states(st, normals)
        if len(others) > 1:
            others = self._merge_nonnormal(st, others)
        return [(x, NORMAL, None) for x in normals] + others

    def st_For(self, st, node, fr):
        res = []
        for s, kind, itv in self.eval_x(st, node.iter, fr):
            if kind != NORMAL:
                res.append((s, kind, itv))
                continue
            if isinstance(itv, Unknown):
                if not self.abstract:
                    raise Unsupported('for over unknown')
                items = [Unknown('item', itv.tag), Unknown('item', itv.tag)]
                partial = True
            else:
                if is_sym(itv):
                    raise Unsupported('symbolic iterable')
                if isinstance(itv, (Closure,)):
                    raise Unsupported('iterate closure')
                try:
                    if isinstance(itv, range) and len(itv) > 5000:
                        raise Unsupported('long concrete range loop (%d)' % len(itv))
                    if self.abstract and not isinstance(itv, (tuple, list, dict, range, str)):
                        items = [Unknown('item'), Unknown('item')]
                        partial = True
                    else:
                        items = list(self.overlay_seq(s, itv))
                        partial = False
                        if self.abstract and len(items) > 3:
                            items = items[:2]
                            partial = True
                except TypeError as e:
                    res.append((s, RAISE, e))
                    continue
            live = [s]
            exits = []
            for item in items:
                if partial:
                    exits.extend(live)   # the loop may stop before this iteration
                nxt = []
                for s1 in live:
                    s1 = s1.copy()
                    for o0 in self.assign(s1, node.target, item, fr):
                        if o0[1] != NORMAL:
                            res.append(o0)
                            continue
                        for o in self.exec_block(o0[0], node.body, fr):
                            if o[1] in (NORMAL, CONTINUE):
                                nxt.append(o[0])
                            elif o[1] == BREAK:
                                res.append((o[0], NORMAL, None))
                            else:
                                res.append(o)
                if len(nxt) > 1:
                    nxt = self.merge_states(s, nxt)
                live = nxt
            for s1 in live + exits:
                if node.orelse:
                    res.extend(self.exec_block(s1, node.orelse, fr))
                else:
                    res.append((s1, NORMAL, None))
        normals = [o[0] for o in res if o[1] == NORMAL]
        others = [o for o in res if o[1] != NORMAL]
        if len(normals) > 1:
            normals = self.merge_states(st, normals)
        if len(others) > 1:
            others = self._merge_nonnormal(st, others)
        return [(x, NORMAL, None) for x in normals] + others

    def exc_matches(self, exc, typ):
        """-> True/False/None(unknown)"""
        if isinstance(exc, Unknown):
            return None
        if isinstance(typ, Unknown):
            return None
        if isinstance(typ, tuple):
            rs = [self.exc_matches(exc, t) for t in typ]
            if any(r is True for r in rs):
                return True
            if any(r is None for r in rs):
                return None
            return False
        try:
            return isinstance(exc, typ)
        except TypeError:
            return False

    def st_Try(self, st, node, fr):
        outs = self.exec_block(st, node.body, fr)
        res = []
        for s, kind, v in outs:
            if kind == NORMAL:
                if node.orelse:
                    res.extend(self.exec_block(s, node.orelse, fr))
                else:
                    res.append((s, kind, v))
            elif kind == RAISE:
                res.extend(self._handle(s, v, node, fr))
            else:
                res.append((s, kind, v))
        if not node.finalbody:
            return res
        final = []
        for s, kind, v in res:
            for s2, k2, v2 in self.exec_block(s, node.finalbody, fr):
                if k2 == NORMAL:
                    final.append((s2, kind, v))
                else:
                    final.append((s2, k2, v2))
        return final

    def _handle(self, s, exc, node, fr):
        """dispatch a raised exception over the handlers of a try statement"""
        res = []
        cur = s
        for h in node.handlers:
            if h.type is None:
                m = True
            else:
                tv = self.eval_x(cur, h.type, fr)
                if len(tv) != 1 or tv[0][1] != NORMAL:
                    raise Unsupported('complex except clause')
                m = self.exc_matches(exc, tv[0][2])
            if m is False:
                continue
            if m is None:
                b = fresh_bool('exm')
                take = cur.fork(b.t)
                cur = cur.fork(z3.Not(b.t))
            else:
                take = cur.copy()
            if h.name:
                take.env[h.name] = exc
            prev = take.env.get('__cur_exc__')
            take.env['__cur_exc__'] = exc
            for o in self.exec_block(take, h.body, fr):
                o[0].env = dict(o[0].env)
                if prev is None:
                    o[0].env.pop('__cur_exc__', None)
                else:
                    o[0].env['__cur_exc__'] = prev
                res.append(o)
            if m is True:
                return res
        res.append((cur, RAISE, exc))
        return res

    def st_With(self, st, node, fr):
        if len(node.items) != 1:
            # nest
            inner = ast.With(items=node.items[1:], body=node.body)
            ast.copy_location(inner, node)
            outer = ast.With(items=node.items[:1], body=[inner])
            ast.copy_location(outer, node)
            return self.st_With(st, outer, fr)
        item = node.items[0]

        def k(s, mgr):
            if isinstance(mgr, Unknown):
                raise Unsupported('with on unknown manager')
            enter = self.find_class_attr(type(mgr), '__enter__')
            exit_ = self.find_class_attr(type(mgr), '__exit__')
            if enter is _MISSING or exit_ is _MISSING:
                return [(s, RAISE, AttributeError('__enter__'))]

            def after_enter(s2, val):
                s2 = s2.copy()
                if item.optional_vars is not None:
                    a = self.assign(s2, item.optional_vars, val, fr)
                else:
                    a = [(s2, NORMAL, None)]
                res = []
                for s3, k3, v3 in a:
                    if k3 != NORMAL:
                        res.append((s3, k3, v3))
                        continue
                    for s4, k4, v4 in self.exec_block(s3, node.body, fr):
                        if k4 == RAISE:
                            et = type(v4) if isinstance(v4, BaseException) else Unknown('exctype')
                            for s5, k5, v5 in self.call(s4, exit_, [mgr, et, v4, None], {}, fr):
                                if k5 != NORMAL:
                                    res.append((s5, k5, v5))
                                    continue
                                for s6, k6, t6 in self.truth_outs(s5, v5, fr):
                                    for s7, b in self.branch(s6, t6):
                                        res.append((s7, NORMAL, None) if b else (s7, RAISE, v4))
                        else:
                            for s5, k5, v5 in self.call(s4, exit_, [mgr, None, None, None], {}, fr):
                                if k5 != NORMAL:
                                    res.append((s5, k5, v5))
                                else:
                                    res.append((s5, k4, v4))
                return res
            return self.lift(self.call(s, enter, [mgr], {}, fr), after_enter)
        return self.lift(self.eval_x(st, item.context_expr, fr), k)

    def st_FunctionDef(self, st, node, fr):
        def k(s, vs):
            nd = len(node.args.defaults)
            defaults = tuple(vs[:nd])
            kwd = {a.arg: v for a, v in zip([a for a, d in zip(node.args.kwonlyargs, node.args.kw_defaults) if d is not None], vs[nd:])}
            clo = self.make_closure(s, node, fr, defaults, kwd, node.name)
            outs = [(s, NORMAL, clo)]
            for dec in reversed(node.decorator_list):
                def apply(s2, f, dec=dec):
                    return self.lift(self.eval_x(s2, dec, fr), lambda s3, d: self.call(s3, d, [f], {}, fr))
                outs = self.lift(outs, apply)

            def bind(s2, f):
                s2 = s2.copy()
                self.assign_name(s2, node.name, f, fr)
                return [(s2, NORMAL, None)]
            return self.lift(outs, bind)
        dnodes = list(node.args.defaults) + [d for d in node.args.kw_defaults if d is not None]
        return self.eval_list(st, dnodes, fr, k)

    def make_closure(self, st, node, fr, defaults, kwdefaults, name):
        cells = dict(fr.cells)
        # free variables of the nested function that are plain locals of the enclosing frame
        # were moved into cells by run_body (shared names)
        return Closure(node, fr, defaults, kwdefaults, cells, name)

    # ------------------------------------------------------------------ expressions
    def eval_x(self, st, node, fr):
        m = getattr(self, 'ex_' + type(node).__name__, None)
        if not self.abstract:
            if m is None:
                raise Unsupported('expression ' + type(node).__name__)
            return m(st, node, fr)
        # abstract mode: anything outside the supported subset evaluates to an Unknown that may raise
        try:
            if m is None:
                raise Unsupported('expression ' + type(node).__name__)
            return m(st, node, fr)
        except (Unsupported, TypeError, AttributeError, ValueError, KeyError, IndexError, OverflowError) as ex:
            self.lenient.append('%s:%s %s: %s' % (getattr(fr.func, '__qualname__', '?'), getattr(node, 'lineno', '?'), type(ex).__name__, str(ex)[:80]))
            return self.unknown_call(st, Unknown('lenient'), [], {})

    def eval_list(self, st, nodes, fr, k):
        def rec(s, i, acc):
            if i == len(nodes):
                return k(s, acc)
            return self.lift(self.eval_x(s, nodes[i], fr), lambda s2, v: rec(s2, i + 1, acc + [v]))
        return rec(st, 0, [])

    def ex_Constant(self, st, node, fr):
        if self.const_override:
            key = (getattr(fr.func, '__name__', '?'), node.value)
            if key in self.const_override and type(node.value) is int:
                return [(st, NORMAL, self.const_override[key])]
        return [(st, NORMAL, node.value)]

    def ex_Name(self, st, node, fr):
        n = node.id
        if n in st.env:
            return [(st, NORMAL, st.env[n])]
        c = fr.cells.get(n)
        if c is not None:
            if c.v is _MISSING:
                return [(st, RAISE, NameError(n))]
            return [(st, NORMAL, c.v)]
        h = st.heap.get((id(fr.glob), ('global', n)))
        if h is not None:
            return [(st, NORMAL, h[1])]
        if n in fr.glob:
            return [(st, NORMAL, fr.glob[n])]
        if hasattr(builtins, n):
            return [(st, NORMAL, getattr(builtins, n))]
        return [(st, RAISE, NameError(n))]

    def ex_Tuple(self, st, node, fr):
        if any(isinstance(e, ast.Starred) for e in node.elts):
            raise Unsupported('starred in tuple display')
        return self.eval_list(st, node.elts, fr, lambda s, vs: [(s, NORMAL, tuple(vs))])

    def ex_List(self, st, node, fr):
        if any(isinstance(e, ast.Starred) for e in node.elts):
            raise Unsupported('starred in list display')
        return self.eval_list(st, node.elts, fr, lambda s, vs: [(s, NORMAL, list(vs))])

    def ex_Set(self, st, node, fr):
        def k(s, vs):
            if has_sym(vs) or has_unknown(vs):
                raise Unsupported('symbolic set display')
            return [(s, NORMAL, set(vs))]
        return self.eval_list(st, node.elts, fr, k)

    def ex_Dict(self, st, node, fr):
        if any(k is None for k in node.keys):
            raise Unsupported('dict unpacking display')
        n = len(node.keys)

        def k(s, vs):
            if has_sym(vs[:n]):
                raise Unsupported('symbolic dict key')
            return [(s, NORMAL, dict(zip(vs[:n], vs[n:])))]
        return self.eval_list(st, list(node.keys) + list(node.values), fr, k)

    def ex_JoinedStr(self, st, node, fr):
        raise Unsupported('f-string')

    BINOPS = {ast.Add: operator.add, ast.Sub: operator.sub, ast.Mult: operator.mul,
              ast.FloorDiv: operator.floordiv, ast.Mod: operator.mod, ast.LShift: operator.lshift,
              ast.RShift: operator.rshift, ast.BitAnd: operator.and_, ast.BitOr: operator.or_,
              ast.BitXor: operator.xor, ast.Pow: operator.pow, ast.Div: operator.truediv,
              ast.MatMult: operator.matmul}
    DUNDER = {ast.Add: 'add', ast.Sub: 'sub', ast.Mult: 'mul', ast.FloorDiv: 'floordiv', ast.Mod: 'mod',
              ast.LShift: 'lshift', ast.RShift: 'rshift', ast.BitAnd: 'and', ast.BitOr: 'or', ast.BitXor: 'xor',
              ast.Pow: 'pow', ast.Div: 'truediv', ast.MatMult: 'matmul'}

    def ex_BinOp(self, st, node, fr):
        return self.eval_list(st, [node.left, node.right], fr,
                              lambda s, vs: self.do_binop(s, type(node.op), vs[0], vs[1], fr, getattr(node, '_inplace', False)))

    def do_binop(self, s, opt, a, b, fr, inplace=False):
        op = self.BINOPS[opt]
        if isinstance(a, Unknown) or isinstance(b, Unknown):
            if not self.abstract:
                raise Unsupported('operator on unknown')
            # integer view: an Unknown combined with an integer by an integer operator is one consistent fresh symbolic int
            other = b if isinstance(a, Unknown) else a
            if opt in (ast.Add, ast.Sub, ast.Mult, ast.FloorDiv, ast.LShift, ast.RShift) and isinstance(other, (SInt, int)) \
                    and not isinstance(other, bool) and (isinstance(other, SInt) or opt in (ast.Add, ast.Sub)):
                try:
                    ai = a.as_int() if isinstance(a, Unknown) else a
                    bi = b.as_int() if isinstance(b, Unknown) else b
                    return self.do_binop(s, opt, ai, bi, fr, inplace)
                except Unsupported:
                    pass
            ta = a.tag if isinstance(a, Unknown) else None
            rb = fresh_bool('opraises')
            return [(s.fork(z3.Not(rb.t)), NORMAL, Unknown('op', ta)), (s.fork(rb.t), RAISE, Unknown('exc'))]
        if is_mp_object(a) or is_mp_object(b):
            return self.object_binop(s, opt, a, b, fr, inplace)
        from .models import SFloat
        if isinstance(a, SFloat) or isinstance(b, SFloat):
            return [(s, NORMAL, self.sfloat_binop(op, a, b))]
        G.CUR = (self, s.pc)
        try:
            if isinstance(a, (tuple, list, str, SStr)) or isinstance(b, (tuple, list, str, SStr)):
                return [(s, NORMAL, self.seq_binop(op, a, b))]
            if isinstance(a, float) or isinstance(b, float):
                if is_sym(a) or is_sym(b):
                    raise Unsupported('float arithmetic with symbolic int')
                return [(s, NORMAL, op(a, b))]
            if isinstance(a, (SInt, SBool, int)) and isinstance(b, (SInt, SBool, int)):
                return [(s, NORMAL, binop(op, a, b))]
            if has_sym(a) or has_sym(b):
                raise Unsupported('operator %s on %s, %s' % (op.__name__, type(a).__name__, type(b).__name__))
            return [(s, NORMAL, op(a, b))]
        except (ZeroDivisionError, ValueError, TypeError, OverflowError) as e:
            return [(s, RAISE, e)]
        finally:
            G.CUR = None

    def sfloat_binop(self, op, a, b):
        """the float model supports exact scaling by a concrete power of two only"""
        from .models import SFloat
        if op is operator.mul:
            f, k = (a, b) if isinstance(a, SFloat) else (b, a)
            if isinstance(k, int) and not isinstance(k, bool) and k > 0 and k & (k - 1) == 0:
                return SFloat(f.m, binop(operator.add, f.e, k.bit_length() - 1))
        raise Unsupported('float-model arithmetic other than scaling by a power of two')

    def seq_binop(self, op, a, b):
        if isinstance(a, SStr) or isinstance(b, SStr):
            if op is operator.add and isinstance(a, (SStr, str)) and isinstance(b, (SStr, str)):
                from .strings import concat
                return concat(a, b)
            raise Unsupported('operator on symbolic string')
        if op is operator.add and type(a) is type(b):
            return a + b
        if op is operator.mul and isinstance(a, (tuple, list, str)) and isinstance(b, int) and not is_sym(b):
            return a * b
        if op is operator.mul and isinstance(b, (tuple, list, str)) and isinstance(a, int) and not is_sym(a):
            return a * b
        if op is operator.mod and isinstance(a, str):
            if has_sym(b):
                return '<formatted symbolic>'
            if has_unknown(b):
                return '<formatted unknown>'
            return a % b
        if not has_sym(a) and not has_sym(b):
            return op(a, b)
        raise Unsupported('sequence operator with symbolic content')

    def object_binop(self, s, opt, a, b, fr, inplace):
        nm = self.DUNDER[opt]
        tries = []
        if inplace:
            tries.append((a, '__i%s__' % nm, b))
        tries.append((a, '__%s__' % nm, b))
        tries.append((b, '__r%s__' % nm, a))

        def attempt(s, i):
            if i == len(tries):
                return [(s, RAISE, TypeError('unsupported operand types'))]
            x, meth, y = tries[i]
            if isinstance(x, (SInt, SBool)):
                return attempt(s, i + 1)
            m = self.find_class_attr(type(x), meth)
            if m is _MISSING:
                return attempt(s, i + 1)
            if not is_mp_function(m):
                if is_mp_object(x):
                    raise Unsupported('native operator method %s.%s' % (type(x).__name__, meth))
                if has_sym(y) or is_mp_object(y):
                    return attempt(s, i + 1)   # int.__add__(mpf) -> NotImplemented
                try:
                    r = getattr(x, meth)(y)
                except Exception as e:
                    return [(s, RAISE, e)]
                return [(s, NORMAL, r)] if r is not NotImplemented else attempt(s, i + 1)

            def k(s2, r):
                if r is NotImplemented:
                    return attempt(s2, i + 1)
                return [(s2, NORMAL, r)]
            return self.lift(self.call(s, m, [x, y], {}, fr), k)
        return attempt(s, 0)

    def ex_UnaryOp(self, st, node, fr):
        def k(s, v):
            if isinstance(node.op, ast.Not):
                def kt(s2, t):
                    if isinstance(t, Unknown):
                        return [(s2, NORMAL, t)]
                    return [(s2, NORMAL, not_(t))]
                return self.lift(self.truth_outs(s, v, fr), kt)
            if isinstance(v, Unknown):
                return self.do_binop(s, ast.Add, v, 0, fr)
            if is_mp_object(v):
                meth = {ast.USub: '__neg__', ast.UAdd: '__pos__', ast.Invert: '__invert__'}[type(node.op)]
                m = self.find_class_attr(type(v), meth)
                if m is _MISSING:
                    return [(s, RAISE, TypeError('bad operand type for unary op'))]
                if not is_mp_function(m):
                    raise Unsupported('native unary operator')
                return self.call(s, m, [v], {}, fr)
            if isinstance(node.op, ast.USub):
                return [(s, NORMAL, neg(v))]
            if isinstance(node.op, ast.UAdd):
                return [(s, NORMAL, v if not isinstance(v, SBool) else mk_int(zt(v), 0, 1))]
            if isinstance(node.op, ast.Invert):
                return [(s, NORMAL, invert(v))]
            raise Unsupported('unary')
        return self.lift(self.eval_x(st, node.operand, fr), k)

    def ex_BoolOp(self, st, node, fr):
        is_and = isinstance(node.op, ast.And)

        def rec(s, i):
            def k(s2, v):
                if i == len(node.values) - 1:
                    return [(s2, NORMAL, v)]

                def kt(s3, t):
                    if isinstance(t, Unknown):
                        out = []
                        for s4, b in self.branch(s3, t):
                            if b == is_and:
                                out.extend(rec(s4, i + 1))
                            else:
                                out.append((s4, NORMAL, v))
                        return out
                    if t is True or t is False:
                        if t == is_and:
                            return rec(s3, i + 1)
                        return [(s3, NORMAL, v)]
                    # symbolic: evaluate the tail under the extended path condition, merge value
                    out = []
                    c = t.t if is_and else z3.Not(t.t)
                    if not self.abstract:
                        if not self.feasible(s3.pc, c):
                            return [(s3, NORMAL, v)]
                        if not self.feasible(s3.pc, z3.Not(c)):
                            return rec(s3, i + 1)
                    tail = rec(s3.fork(c), i + 1)
                    short = (s3.fork(z3.Not(c)), NORMAL, v)
                    return self.merge_outcomes(s3, tail + [short])
                return self.lift(self.truth_outs(s2, v, fr), kt)
            return self.lift(self.eval_x(s, node.values[i], fr), k)
        return rec(st, 0)

    CMPSYM = {ast.Lt: '<', ast.LtE: '<=', ast.Gt: '>', ast.GtE: '>='}
    CMPDUNDER = {ast.Lt: ('__lt__', '__gt__'), ast.LtE: ('__le__', '__ge__'), ast.Gt: ('__gt__', '__lt__'),
                 ast.GtE: ('__ge__', '__le__'), ast.Eq: ('__eq__', '__eq__'), ast.NotEq: ('__ne__', '__ne__')}

    def compare1(self, s, op, a, b, fr):
        """one comparison -> outcomes with value bool/SBool/Unknown/object"""
        if isinstance(op, (ast.Is, ast.IsNot)):
            if isinstance(a, Unknown) or isinstance(b, Unknown):
                if (a is None or b is None) and self.abstract:
                    return [(s, NORMAL, Unknown('is'))]
                return [(s, NORMAL, Unknown('is'))] if self.abstract else (_ for _ in ()).throw(Unsupported('is on unknown'))
            if is_sym(a) or is_sym(b):
                if a is None or b is None or isinstance(a, (str, type)) or isinstance(b, (str, type)) or a is NotImplemented or b is NotImplemented:
                    r = False
                else:
                    raise Unsupported('is on symbolic values')
            else:
                r = a is b
            return [(s, NORMAL, r if isinstance(op, ast.Is) else not r)]
        if isinstance(a, Unknown) or isinstance(b, Unknown):
            if not self.abstract:
                raise Unsupported('comparison with unknown')
            other = b if isinstance(a, Unknown) else a
            if isinstance(op, (ast.Lt, ast.LtE, ast.Gt, ast.GtE, ast.Eq, ast.NotEq)) and isinstance(other, (SInt, int)) and not isinstance(other, bool):
                ai = a.as_int() if isinstance(a, Unknown) else a
                bi = b.as_int() if isinstance(b, Unknown) else b
                if isinstance(op, (ast.Eq, ast.NotEq)):
                    # an Unknown need not be an int at all: equality with an int may simply be False
                    r = eq_val(ai, bi)
                    r = r if isinstance(op, ast.Eq) else not_(r)
                    if isinstance(r, SBool):
                        isint = fresh_bool('isint')
                        r = mk_bool(z3.And(isint.t, r.t)) if isinstance(op, ast.Eq) else mk_bool(z3.Or(z3.Not(isint.t), r.t))
                    return [(s, NORMAL, r)]
                return [(s, NORMAL, cmp_ints(self.CMPSYM[type(op)], ai, bi))]
            return [(s, NORMAL, Unknown('cmp'))]
        if isinstance(a, SStr) or isinstance(b, SStr):
            from . import strings as S
            if isinstance(op, (ast.In, ast.NotIn)) and isinstance(a, SStr) and isinstance(b, str):
                r = S.contains(a, b)
                return [(s, NORMAL, r if isinstance(op, ast.In) else not_(r))]
            if isinstance(op, (ast.Eq, ast.NotEq)) and isinstance(a, (SStr, str)) and isinstance(b, (SStr, str)):
                r = S.seq_eq(a, b)
                return [(s, NORMAL, r if isinstance(op, ast.Eq) else not_(r))]
            if isinstance(op, (ast.Eq, ast.NotEq)):
                return [(s, NORMAL, isinstance(op, ast.NotEq))]
            raise Unsupported('comparison on symbolic string')
        if isinstance(op, (ast.In, ast.NotIn)):
            return self.contains(s, a, b, fr, isinstance(op, ast.NotIn))
        if is_mp_object(a) or is_mp_object(b):
            return self.object_compare(s, op, a, b, fr)
        if isinstance(op, ast.Eq):
            return [(s, NORMAL, eq_val(a, b))]
        if isinstance(op, ast.NotEq):
            return [(s, NORMAL, not_(eq_val(a, b)))]
        if (isinstance(a, (tuple, list)) or isinstance(b, (tuple, list))) and (has_sym(a) or has_sym(b)):
            raise Unsupported('ordering of symbolic tuples')
        if isinstance(a, float) or isinstance(b, float):
            if is_sym(a) or is_sym(b):
                raise Unsupported('compare symbolic int with float')
        if type(a).__name__ in ('SFloat', 'SComplex') or type(b).__name__ in ('SFloat', 'SComplex'):
            raise Unsupported('ordering of float-model values')
        try:
            return [(s, NORMAL, cmp_ints(self.CMPSYM[type(op)], a, b))]
        except TypeError as e:
            return [(s, RAISE, e)]

    def object_compare(self, s, op, a, b, fr):
        fwd, rev = self.CMPDUNDER[type(op)]
        tries = [(a, fwd, b), (b, rev, a)]

        def attempt(s, i):
            if i == len(tries):
                if isinstance(op, ast.Eq):
                    return [(s, NORMAL, a is b)]
                if isinstance(op, ast.NotEq):
                    return [(s, NORMAL, a is not b)]
                return [(s, RAISE, TypeError('unorderable types'))]
            x, meth, y = tries[i]
            if not is_mp_object(x):
                return attempt(s, i + 1)
            m = self.find_class_attr(type(x), meth)
            if m is _MISSING or m is getattr(object, meth, None):
                return attempt(s, i + 1)
            if not is_mp_function(m):
                raise Unsupported('native comparison method %s.%s' % (type(x).__name__, meth))

            def k(s2, r):
                if r is NotImplemented:
                    return attempt(s2, i + 1)
                return [(s2, NORMAL, r)]
            return self.lift(self.call(s, m, [x, y], {}, fr), k)
        return attempt(s, 0)

    def contains(self, s, a, b, fr, negate):
        fin = (lambda r: not_(r)) if negate else (lambda r: r)
        if isinstance(b, (tuple, list)):
            if is_mp_object(a) or any(is_mp_object(x) for x in b):
                # sequential == with object protocol
                def rec(s2, i):
                    if i == len(b):
                        return [(s2, NORMAL, fin(False))]
                    if b[i] is a:
                        return [(s2, NORMAL, fin(True))]

                    def k(s3, r):
                        out = []
                        for s4, k4, t in self.truth_outs(s3, r, fr):
                            for s5, bb in self.branch(s4, t):
                                if bb:
                                    out.append((s5, NORMAL, fin(True)))
                                else:
                                    out.extend(rec(s5, i + 1))
                        return out
                    return self.lift(self.compare1(s2, ast.Eq(), a, b[i], fr), k)
                return rec(s, 0)
            parts = [eq_val(a, x) for x in b]
            if any(p is True for p in parts):
                return [(s, NORMAL, fin(True))]
            ps = [zb(p) for p in parts if p is not False]
            return [(s, NORMAL, fin(mk_bool(z3.Or(ps)) if ps else False))]
        if isinstance(b, (dict, set, frozenset)):
            if is_sym(a):
                lo, hi = bounds(a)
                ks = [k for k in b if isinstance(k, int) and not isinstance(k, bool) and lo <= k <= hi]
                r = mk_bool(z3.Or([zt(a) == bvv(k) for k in ks])) if ks else False
            elif has_sym(a):
                raise Unsupported('symbolic tuple as dict key')
            else:
                try:
                    r = a in b
                    # overlay dict writes
                    h = s.heap.get((id(b), ('item', a)))
                    if h is not None:
                        r = h[1] is not _MISSING
                except TypeError as e:
                    return [(s, RAISE, e)]
            return [(s, NORMAL, fin(r))]
        if isinstance(b, str):
            if has_sym(a):
                raise Unsupported('symbolic in str')
            return [(s, NORMAL, fin(a in b))]
        if is_mp_object(b):
            m = self.find_class_attr(type(b), '__contains__')
            if m is not _MISSING and is_mp_function(m):
                return self.lift(self.call(s, m, [b, a], {}, fr),
                                 lambda s2, r: self.lift(self.truth_outs(s2, r, fr), lambda s3, t: [(s3, NORMAL, fin(t))]))
        if has_sym(a) or has_sym(b):
            raise Unsupported('in on %s' % type(b).__name__)
        try:
            return [(s, NORMAL, fin(a in b))]
        except TypeError as e:
            return [(s, RAISE, e)]

    def ex_Compare(self, st, node, fr):
        if len(node.ops) == 1:
            return self.eval_list(st, [node.left, node.comparators[0]], fr,
                                  lambda s, vs: self.compare1(s, node.ops[0], vs[0], vs[1], fr))

        def k(s, vs):
            # chained comparison over already-evaluated operands (operands are side-effect free in mpmath)
            def rec(s2, i, acc):
                if i == len(node.ops):
                    return [(s2, NORMAL, acc)]

                def k2(s3, r):
                    if isinstance(r, Unknown) or isinstance(acc, Unknown):
                        return rec(s3, i + 1, Unknown('cmp'))
                    if not isinstance(r, (bool, SBool)):
                        outs = self.truth_outs(s3, r, fr)
                        return self.lift(outs, lambda s4, t: k2(s4, t))
                    if r is False or acc is False:
                        return [(s3, NORMAL, False)]
                    if acc is True:
                        return rec(s3, i + 1, r)
                    if r is True:
                        return rec(s3, i + 1, acc)
                    return rec(s3, i + 1, mk_bool(z3.And(zb(acc), zb(r))))
                return self.lift(self.compare1(s2, node.ops[i], vs[i], vs[i + 1], fr), k2)
            return rec(s, 0, True)
        return self.eval_list(st, [node.left] + list(node.comparators), fr, k)

    def ex_IfExp(self, st, node, fr):
        def k(s, c):
            out = []
            for s1, k1, t in self.truth_outs(s, c, fr):
                if k1 != NORMAL:
                    out.append((s1, k1, t))
                    continue
                sides = self.branch(s1, t)
                sub = []
                for s2, b in sides:
                    sub.extend(self.eval_x(s2, node.body if b else node.orelse, fr))
                out.extend(self.merge_outcomes(s1, sub) if len(sides) > 1 else sub)
            return out
        return self.lift(self.eval_x(st, node.test, fr), k)

    def ex_Attribute(self, st, node, fr):
        return self.lift(self.eval_x(st, node.value, fr), lambda s, v: self.load_attr(s, v, node.attr, fr))

    def ex_Subscript(self, st, node, fr):
        if isinstance(node.slice, ast.Slice):
            parts = [node.slice.lower, node.slice.upper, node.slice.step]
            nodes = [p if p is not None else ast.Constant(value=None) for p in parts]

            def ks(s, vs):
                if isinstance(vs[0], Unknown) or has_unknown(vs[1:]):
                    return [(s, NORMAL, Unknown('slice'))]
                if has_sym(vs[1:]):
                    raise Unsupported('symbolic slice bounds')
                if hasattr(vs[0], 'sliced'):
                    return [(s, NORMAL, vs[0].sliced(slice(*vs[1:])))]
                if is_mp_object(vs[0]):
                    gi = self.find_class_attr(type(vs[0]), '__getitem__')
                    if gi is not _MISSING and is_mp_function(gi):
                        return self.call(s, gi, [vs[0], slice(*vs[1:])], {}, fr)
                try:
                    return [(s, NORMAL, self.overlay_seq(s, vs[0])[slice(*vs[1:])])]
                except Exception as e:
                    return [(s, RAISE, e)]
            return self.eval_list(st, [node.value] + nodes, fr, ks)
        return self.eval_list(st, [node.value, node.slice], fr, lambda s, vs: self.subscript(s, vs[0], vs[1], fr))

    def overlay_seq(self, s, c):
        """a list with overlay item writes applied"""
        if isinstance(c, list) and s.heap:
            h = s.heap.get((id(c), 'contents'))
            out = list(h[1]) if h is not None else None
            for (oid, key), (obj, val) in s.heap.items():
                if oid == id(c) and isinstance(key, tuple) and key[0] == 'item':
                    if out is None:
                        out = list(c)
                    if key[1] < len(out):
                        out[key[1]] = val
            if out is not None:
                return out
        return c

    def subscript(self, s, c, i, fr):
        if isinstance(c, Unknown) or isinstance(i, Unknown):
            if not self.abstract:
                raise Unsupported('subscript of unknown')
            t = c.tag if isinstance(c, Unknown) else None
            return [(s, NORMAL, Unknown('item', t))]
        if isinstance(i, SBool):
            i = mk_int(zt(i), 0, 1)
        if isinstance(c, list) and (id(c), 'contents') in s.heap:
            c = self.overlay_seq(s, c)
        if isinstance(c, SStr):
            if is_sym(i):
                raise Unsupported('symbolic index into symbolic string')
            try:
                return [(s, NORMAL, SStr([c.chars[i]]))]
            except IndexError as ex:
                return [(s, RAISE, ex)]
        if not is_sym(i):
            if is_mp_object(c):
                gi = self.find_class_attr(type(c), '__getitem__')
                if gi is not _MISSING and is_mp_function(gi):
                    return self.call(s, gi, [c, i], {}, fr)
            if has_sym(i):
                raise Unsupported('symbolic tuple index/key')
            try:
                hash(i)
                h = s.heap.get((id(c), ('item', i if not (isinstance(c, list) and isinstance(i, int) and i < 0) else i + len(c))))
            except TypeError:
                h = None
            if h is not None:
                if h[1] is _MISSING:
                    return [(s, RAISE, KeyError(i))]
                return [(s, NORMAL, h[1])]
            try:
                return [(s, NORMAL, c[i])]
            except (IndexError, KeyError, TypeError) as e:
                return [(s, RAISE, e)]
        it = zt(i)
        if isinstance(c, (list, tuple)):
            c = self.overlay_seq(s, c)
            n = len(c)
            outs = []
            lo, hi = bounds(i)
            if lo < 0 and not self.feasible(s.pc, it < bvv(0)):
                lo = 0
            if lo < -n or hi >= n:
                inr = z3.And(it >= bvv(-n), it < bvv(n))
                if self.feasible(s.pc, z3.Not(inr)):
                    outs.append((s.fork(z3.Not(inr)), RAISE, IndexError('index out of range (symbolic)')))
                    s = s.fork(inr)
            ks_ = range(max(lo, -n), min(hi, n - 1) + 1)
            res = None
            try:
                for j in ks_:
                    res = c[j] if res is None else merge(it == bvv(j), c[j], res)
            except Unmergeable:
                if len(ks_) > 64:
                    raise Unsupported('table of unmergeable values')
                for j in ks_:
                    if self.feasible(s.pc, it == bvv(j)):
                        outs.append((s.fork(it == bvv(j)), NORMAL, c[j]))
                return outs
            return outs + [(s, NORMAL, res)]
        if isinstance(c, dict):
            lo, hi = bounds(i)
            keys = [kk for kk in c if isinstance(kk, int) and not isinstance(kk, bool) and lo <= kk <= hi]
            outs = []
            inr = z3.Or([it == bvv(kk) for kk in keys]) if keys else z3.BoolVal(False)
            if self.feasible(s.pc, z3.Not(inr)):
                outs.append((s.fork(z3.Not(inr)), RAISE, KeyError('symbolic key')))
                if not keys:
                    return outs
                s = s.fork(inr)
            res = None
            try:
                for kk in keys:
                    res = c[kk] if res is None else merge(it == bvv(kk), c[kk], res)
            except Unmergeable:
                for kk in keys:
                    if self.feasible(s.pc, it == bvv(kk)):
                        outs.append((s.fork(it == bvv(kk)), NORMAL, c[kk]))
                return outs
            return outs + [(s, NORMAL, res)]
        if is_mp_object(c):
            gi = self.find_class_attr(type(c), '__getitem__')
            if gi is not _MISSING and is_mp_function(gi):
                return self.call(s, gi, [c, i], {}, fr)
        if isinstance(c, str):
            raise Unsupported('symbolic index into str')
        raise Unsupported('symbolic subscript of %s' % type(c).__name__)

    def ex_Call(self, st, node, fr):
        nodes = [node.func]
        plan = []
        for a in node.args:
            if isinstance(a, ast.Starred):
                plan.append(('star', None))
                nodes.append(a.value)
            else:
                plan.append(('pos', None))
                nodes.append(a)
        for kw in node.keywords:
            plan.append(('kw', kw.arg))
            nodes.append(kw.value)

        def k(s, vs):
            fn = vs[0]
            args = []
            kwargs = {}
            for (kind, name), v in zip(plan, vs[1:]):
                if kind == 'pos':
                    args.append(v)
                elif kind == 'star':
                    if isinstance(v, Unknown):
                        if not self.abstract:
                            raise Unsupported('*unknown')
                        args.append(Unknown('star'))
                    elif isinstance(v, (tuple, list)):
                        args.extend(v)
                    elif has_sym(v):
                        raise Unsupported('*symbolic')
                    else:
                        args.extend(list(v))
                elif name is None:
                    if isinstance(v, Unknown):
                        if not self.abstract:
                            raise Unsupported('**unknown')
                        kwargs['__unknown_kwargs__'] = v
                    elif not isinstance(v, dict):
                        raise Unsupported('** of non-dict')
                    else:
                        kwargs.update(v)
                else:
                    kwargs[name] = v
            return self.call(s, fn, args, kwargs, fr)
        return self.eval_list(st, nodes, fr, k)

    def ex_Lambda(self, st, node, fr):
        def k(s, vs):
            nd = len(node.args.defaults)
            clo = self.make_closure(s, node, fr, tuple(vs[:nd]), {}, '<lambda>')
            return [(s, NORMAL, clo)]
        return self.eval_list(st, list(node.args.defaults), fr, k)

    def ex_ListComp(self, st, node, fr):
        return self._comp(st, node, fr, list)

    def ex_GeneratorExp(self, st, node, fr):
        return self._comp(st, node, fr, tuple)

    def _comp(self, st, node, fr, ctor):
        if len(node.generators) != 1 or node.generators[0].is_async:
            raise Unsupported('nested comprehension')
        gen = node.generators[0]

        def k(s, itv):
            if isinstance(itv, Unknown):
                if not self.abstract:
                    raise Unsupported('comprehension over unknown')
                return [(s, NORMAL, Unknown('comp', itv.tag))]
            if is_sym(itv):
                raise Unsupported('comprehension over symbolic')
            items = list(itv)
            if len(items) > 2000:
                raise Unsupported('long comprehension')
            saved = {}
            outs = [(s, NORMAL, [])]
            for item in items:
                def step(s2, acc, item=item):
                    s2 = s2.copy()
                    res = []
                    for s3, k3, _ in self.assign(s2, gen.target, item, fr):
                        if k3 != NORMAL:
                            res.append((s3, k3, _))
                            continue
                        conds = [(s3, NORMAL, True)]
                        for cnode in gen.ifs:
                            def kc(s4, ok, cnode=cnode):
                                if ok is False:
                                    return [(s4, NORMAL, False)]
                                def kt(s5, t):
                                    if not isinstance(t, bool):
                                        raise Unsupported('symbolic comprehension filter')
                                    return [(s5, NORMAL, t)]
                                return self.lift(self.eval_x(s4, cnode, fr), lambda s5, v: self.lift(self.truth_outs(s5, v, fr), kt))
                            conds = self.lift(conds, kc)

                        def ke(s4, ok):
                            if not ok:
                                return [(s4, NORMAL, acc)]
                            return self.lift(self.eval_x(s4, node.elt, fr), lambda s5, v: [(s5, NORMAL, acc + [v])])
                        res.extend(self.lift(conds, ke))
                    return res
                outs = self.lift(outs, step)
            return self.lift(outs, lambda s2, acc: [(s2, NORMAL, ctor(acc))])
        return self.lift(self.eval_x(st, gen.iter, fr), k)

    def ex_Starred(self, st, node, fr):
        raise Unsupported('starred expression')


PREC_ATTRS = ('prec', 'dps', '_prec', '_dps', '_prec_rounding')


def _writes_precision(node):
    for n in ast.walk(node):
        if isinstance(n, (ast.Assign, ast.AugAssign, ast.AnnAssign)):
            targets = n.targets if isinstance(n, ast.Assign) else [n.target]
            for t in targets:
                for x in ast.walk(t):
                    if isinstance(x, ast.Attribute) and x.attr in PREC_ATTRS:
                        return True
        if isinstance(n, ast.With):
            for it in n.items:
                c = it.context_expr
                if isinstance(c, ast.Call) and isinstance(c.func, ast.Attribute) and c.func.attr in ('workprec', 'workdps', 'extraprec', 'extradps'):
                    return True
    return False


def fast_and(lst):
    """conjunction without the z3py per-argument coercion overhead (path conditions can have hundreds of conjuncts)"""
    n = len(lst)
    ctx = lst[0].ctx
    arr = (z3.Ast * n)()
    for i, a in enumerate(lst):
        arr[i] = a.as_ast()
    return z3.BoolRef(z3.Z3_mk_and(ctx.ref(), n, arr), ctx)


def fast_or(lst):
    n = len(lst)
    ctx = lst[0].ctx
    arr = (z3.Ast * n)()
    for i, a in enumerate(lst):
        arr[i] = a.as_ast()
    return z3.BoolRef(z3.Z3_mk_or(ctx.ref(), n, arr), ctx)


def _shared_names(fnode):
    """names assigned/bound in fnode that are referenced by nested defs/lambdas (need cells)"""
    nested = []
    body = fnode.body if isinstance(fnode.body, list) else [fnode.body]
    local = set(a.arg for a in fnode.args.posonlyargs + fnode.args.args + fnode.args.kwonlyargs)
    if fnode.args.vararg:
        local.add(fnode.args.vararg.arg)
    if fnode.args.kwarg:
        local.add(fnode.args.kwarg.arg)

    def visit(n, top):
        for ch in ast.iter_child_nodes(n):
            if isinstance(ch, (ast.FunctionDef, ast.Lambda, ast.AsyncFunctionDef)):
                nested.append(ch)
                if isinstance(ch, ast.FunctionDef):
                    local.add(ch.name)
                # defaults/decorators are evaluated in the enclosing scope
                for d in ch.args.defaults + [d for d in ch.args.kw_defaults if d is not None]:
                    visit(d, top)
                continue
            if isinstance(ch, ast.Name) and isinstance(ch.ctx, (ast.Store, ast.Del)):
                local.add(ch.id)
            if isinstance(ch, ast.ExceptHandler) and ch.name:
                local.add(ch.name)
            if isinstance(ch, (ast.Import, ast.ImportFrom)):
                for a in ch.names:
                    local.add((a.asname or a.name).split('.')[0])
            if isinstance(ch, (ast.ListComp, ast.GeneratorExp, ast.SetComp, ast.DictComp)):
                visit(ch, top)
                continue
            visit(ch, top)
    for stmt in body:
        visit(stmt, True) if not isinstance(stmt, (ast.FunctionDef, ast.Lambda)) else (nested.append(stmt), local.add(getattr(stmt, 'name', '')))
    used = set()
    for nf in nested:
        for n in ast.walk(nf):
            if isinstance(n, ast.Name):
                used.add(n.id)
    return frozenset(local & used)


def run(eng, fn, args, kwargs=None, assumptions=(), heap=None):
    st = State(list(assumptions), {}, dict(heap) if heap else {})
    return eng.call(st, fn, list(args), kwargs or {})
