"""Map live function objects of /repo to AST nodes parsed from the current source files,
with a bytecode consistency check (the AST that is interpreted compiles to the code that runs)."""
import ast
import hashlib
import sys
import types

from .values import HarnessError, Unsupported

_files = {}       # filename -> (tree, {(name, lineno): [nodes]}, {(name, firstlineno): [codes]}, srclines)
_by_code = {}     # code object -> (node, info)
_exec_sources = {}  # code object -> source text for exec-generated functions


def _index_file(fn):
    if fn in _files:
        return _files[fn]
    with open(fn, 'rb') as f:
        src = f.read()
    text = src.decode('utf-8')
    tree = ast.parse(text, fn)
    nodes = {}
    for node in ast.walk(tree):
        if isinstance(node, (ast.FunctionDef, ast.Lambda, ast.AsyncFunctionDef)):
            name = getattr(node, 'name', '<lambda>')
            first = node.lineno
            if getattr(node, 'decorator_list', None):
                first = min(d.lineno for d in node.decorator_list)
            nodes.setdefault((name, first), []).append(node)
            if first != node.lineno:
                nodes.setdefault((name, node.lineno), []).append(node)
    codes = {}
    top = compile(text, fn, 'exec', dont_inherit=True)
    stack = [top]
    while stack:
        c = stack.pop()
        codes.setdefault((c.co_name, c.co_firstlineno), []).append(c)
        for k in c.co_consts:
            if isinstance(k, types.CodeType):
                stack.append(k)
    _files[fn] = (tree, nodes, codes, text.splitlines())
    return _files[fn]


def _same_code(a, b):
    if a.co_code != b.co_code or a.co_names != b.co_names or a.co_varnames != b.co_varnames:
        return False
    ca = [k for k in a.co_consts if not isinstance(k, types.CodeType)]
    cb = [k for k in b.co_consts if not isinstance(k, types.CodeType)]
    return repr(ca) == repr(cb)


def register_exec_source(code, text):
    _exec_sources[code] = text


def _recover_binary_op(fn):
    """exec-generated operators of ctx_mp_python (_mpf.__add__ ...): re-run the real
    binary_op with exec_ wrapped so the generated source text is captured."""
    glob = fn.__globals__
    if 'binary_op' not in glob or 'mpf_binary_op' not in glob:
        return None
    modfile = glob.get('__file__')
    tree, _, _, _ = _index_file(modfile)
    captured = []
    real_exec = glob['exec_']

    def spy(code, g=None, l=None):
        captured.append(code)
        return real_exec(code, g, l)
    for node in tree.body:
        if not (isinstance(node, ast.Assign) and isinstance(node.value, ast.Call)
                and isinstance(node.value.func, ast.Name) and node.value.func.id == 'binary_op'):
            continue
        try:
            args = [eval(compile(ast.Expression(a), modfile, 'eval'), glob) for a in node.value.args]
        except Exception:
            continue
        if not args or args[0] != fn.__name__:
            continue
        glob['exec_'] = spy
        try:
            newfn = glob['binary_op'](*args)
        finally:
            glob['exec_'] = real_exec
        if captured and _same_code(newfn.__code__, fn.__code__):
            return captured[-1]
    return None


def _mangle_private(node, qualname, glob):
    """private name mangling of a method body: inside class C, `x.__name` means `x._C__name` (attribute accesses only; the
    compiler does the same for plain names, which the code under analysis does not use)"""
    if getattr(node, '_pysym_mangled', False):
        return
    node._pysym_mangled = True
    parts = qualname.split('.')
    cls = None
    obj = glob
    for q in parts[:-1]:
        if q == '<locals>' or obj is None:
            break
        obj = obj.get(q) if isinstance(obj, dict) else getattr(obj, q, None)
        if isinstance(obj, type):
            cls = q
    if cls is None:
        return
    cls = cls.lstrip('_')
    if not cls:
        return
    for n in ast.walk(node):
        if isinstance(n, ast.Attribute) and n.attr.startswith('__') and not n.attr.endswith('__'):
            n.attr = '_%s%s' % (cls, n.attr)


def lookup(fn):
    """-> (ast node (FunctionDef or Lambda), info dict).  Raises Unsupported/HarnessError."""
    code = fn.__code__
    if code in _by_code:
        return _by_code[code]
    filename = code.co_filename
    if filename == '<string>' or not filename.endswith('.py'):
        text = _exec_sources.get(code) or _recover_binary_op(fn)
        if text is None:
            raise Unsupported('no source for %s (%s)' % (fn.__qualname__, filename))
        tree = ast.parse(text)
        node = [n for n in tree.body if isinstance(n, ast.FunctionDef)][0]
        comp = compile(text, '<string>', 'exec')
        sub = [k for k in comp.co_consts if isinstance(k, types.CodeType) and k.co_name == node.name]
        if not sub or not _same_code(sub[0], code):
            raise HarnessError('bytecode mismatch for exec-generated %s' % fn.__qualname__)
        info = dict(name=fn.__qualname__, file=fn.__globals__.get('__file__', '?') + ':<exec>', lines=[1, len(text.splitlines())],
                    sha1=hashlib.sha1(text.encode()).hexdigest())
        _by_code[code] = (node, info)
        return _by_code[code]
    tree, nodes, codes, lines = _index_file(filename)
    key = (code.co_name, code.co_firstlineno)
    cand_nodes = nodes.get(key, [])
    cand_codes = codes.get(key, [])
    match = [c for c in cand_codes if _same_code(c, code)]
    if not match:
        raise HarnessError('source/bytecode mismatch for %s at %s:%d (stale import or edited file?)'
                           % (fn.__qualname__, filename, code.co_firstlineno))
    if not cand_nodes:
        raise HarnessError('no AST node for %s at %s:%d' % (fn.__qualname__, filename, code.co_firstlineno))
    node = cand_nodes[0]
    if len(cand_nodes) > 1:
        # several lambdas on one line: pick by position among same-key code objects
        idx = [i for i, c in enumerate(sorted(cand_codes, key=lambda c: c.co_code)) if _same_code(c, code)]
        srt = sorted(cand_nodes, key=lambda n: n.col_offset)
        # fall back: match by argument names
        named = [n for n in cand_nodes if [a.arg for a in n.args.args] == list(code.co_varnames[:code.co_argcount])]
        node = named[0] if len(named) >= 1 else srt[0]
        if len(named) > 1:
            raise Unsupported('ambiguous lambdas on one line at %s:%d' % (filename, code.co_firstlineno))
    _mangle_private(node, fn.__qualname__, getattr(fn, '__globals__', None))
    end = getattr(node, 'end_lineno', node.lineno)
    first = key[1]
    text = '\n'.join(lines[first - 1:end])
    info = dict(name=fn.__qualname__, file=filename, lines=[first, end], sha1=hashlib.sha1(text.encode()).hexdigest())
    _by_code[code] = (node, info)
    return _by_code[code]
