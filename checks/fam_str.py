"""Families for decimal <-> binary conversion: numeric layer of from_str (C07), interval string forms (C14),
numeric core of to_str (C08)."""
import operator
from fractions import Fraction

import z3

from pysym import values as V
from pysym.values import G, SInt, SBool, bvv, zt, zb, binop, Unsupported
from pysym import mpmodels
from pysym.engine import NORMAL, RAISE
from vlib.ob import Ob, add, sub
from vlib import oracle as O
from vlib.oracle import B, ref_round, canonical, is_tuple, value_matches, FZERO, FNAN, FINF, FNINF
from checks.fam_arith import finish, wbump, mk_tuple, libmpf, FALSE, TRUE, E30, _ctx, aspect_good


# ------------------------------------------------------------------------------ from_str numeric layer
def from_str_num(p):
    """from_str('<literal>', prec, rnd) with the tokeniser str_to_man_exp replaced by its contract: it returns (M, E) with
    literal value M * 10**E.  M symbolic with `mbits` bits (sign concrete), E concrete."""
    mbits, mneg, E, prec, rnd = p['mbits'], p.get('mneg', 0), p['E'], p['prec'], p['rnd']
    limit = p.get('limit')           # lowered value of the |exp| > 400 threshold (interpreter cut), None = real code path
    L = libmpf()
    k = abs(E)
    ten = 10 ** k
    W0 = mbits + ten.bit_length() + 2 * prec + 90
    models = mpmodels.mp_models(contract_divmod=True, contract_sqrt=False)
    ob = Ob(wbump(p, W0), timeout_s=p.get('_t', 60), mul_precise_bits=4096, models=models)
    G.stats['DIV_PRECISE_BITS'] = 4096
    Ma = ob.int('M', 1 << (mbits - 1), (1 << mbits) - 1) if mbits > 1 else 1
    M = V.neg(Ma) if mneg else Ma

    def m_tok(eng, st, args, kw, fr):
        return [(st, NORMAL, (M, E))]
    ob.eng.models[L.str_to_man_exp] = m_tok
    if limit is not None:
        ob.eng.const_override[('from_str', 400)] = limit
    outs = ob.run(L.from_str, ['1', prec, rnd])
    neg = z3.BoolVal(bool(mneg))
    approx = k > (400 if limit is None else limit)
    if E >= 0:
        N = V.narrow_mul(zt(Ma), B(ten), (0, (1 << mbits) - 1), (ten, ten)) if k else zt(Ma)
        nlo, nhi = ((1 << (mbits - 1)) * ten).bit_length(), (((1 << mbits) - 1) * ten).bit_length()
        base = B(0)
        sticky = FALSE
        q = N
    else:
        s = max(prec + 3 - (mbits - ten.bit_length()), 0) + 3
        num = zt(Ma) << s
        q = V.narrow_udivrem(num, B(ten), ((1 << mbits) - 1) << s, ten, True)
        sticky = V.narrow_udivrem(num, B(ten), ((1 << mbits) - 1) << s, ten, False) != B(0)
        nlo = (((1 << (mbits - 1)) << s) // ten).bit_length()
        nhi = ((((1 << mbits) - 1) << s) // ten).bit_length()
        base = B(-s)

    def good(val, st):
        if not approx:
            R = ref_round(q, sticky, prec, rnd, neg, max(nlo, 1), nhi)
            return value_matches(val, neg, R, base, nhi + 3, prec)
        # approximate branch: correct side for directed modes, within 2 ulp; canonical, sign
        rs, rm, re, rb = [zt(c) for c in val]
        d = re - base
        K = nhi + prec + 8
        up = rm << d
        dn = q << (-d)
        away = {'f': neg, 'c': z3.Not(neg), 'd': FALSE, 'u': TRUE, 'n': None}[rnd]
        rng = z3.And(d <= B(K), -d <= B(K))
        goals = [z3.And(canonical(val, prec), (rs == B(1)) == neg, rng)]
        if away is not None:
            # magnitude >= exact when rounding away (exact = q + sticky fraction), <= exact when rounding toward zero
            ge = z3.If(d >= 0, z3.If(sticky, z3.UGT(up, q), z3.UGE(up, q)), z3.If(sticky, z3.UGT(rm, dn), z3.UGE(rm, dn)))
            le = z3.If(d >= 0, z3.ULE(up, q), z3.ULE(rm, dn))
            goals.append(z3.Implies(rng, z3.If(away, ge, le)))
        tol = B(2) << z3.If(rb + d > B(prec), rb + d - B(prec), B(0))
        diff = z3.If(z3.UGE(up, q), up - q, q - up)
        goals.append(z3.Implies(z3.And(rng, d >= 0), z3.ULE(diff, tol + B(1))))
        if rnd == 'n' and p.get('roundtrip'):
            # (C08 only) round-to-nearest through two prec+10-bit approximations: the total error stays below (1/2 + 1/32) ulp, which is what
            # makes repr() round-trip (C08); a neighbour of the correctly rounded value would be off by >= 1/2 + ... ulp more
            ulp = B(1) << z3.If(rb + d > B(prec), rb + d - B(prec), B(0))
            goals.append(z3.Implies(z3.And(rng, d >= 0, rb + d > B(prec + 6)), z3.ULE(diff << 6, (ulp << 5) + (ulp << 1) + B(64))))
        return goals
    return finish(ob, ob.prove(outs, good))


def _literal(M, E):
    return '%de%d' % (M, E)


def _patched_from_str(limit):
    import ast, inspect, textwrap
    L = libmpf()
    tree = ast.parse(textwrap.dedent(inspect.getsource(L.from_str)))

    class T(ast.NodeTransformer):
        def visit_Constant(self, node):
            if node.value == 400 and type(node.value) is int:
                return ast.copy_location(ast.Constant(limit), node)
            return node
    tree = ast.fix_missing_locations(T().visit(tree))
    glob = dict(L.__dict__)
    exec(compile(tree, '<patched from_str>', 'exec'), glob)
    return glob['from_str']


def from_str_num_concrete(p, m):
    L = libmpf()
    Ma = m.get('M', 1)
    M = -Ma if p.get('mneg') else Ma
    E, prec, rnd = p['E'], p['prec'], p['rnd']
    limit = p.get('limit')
    lit = _literal(M, E)
    fn = L.from_str if limit is None else _patched_from_str(limit)
    r = fn(lit, prec, rnd)
    exact = Fraction(M) * Fraction(10) ** E
    approx = abs(E) > (400 if limit is None else limit)
    note = '' if limit is None else ' [|exp| threshold lowered to %d]' % limit
    if not approx:
        ok, d = O.check_rounded(r, exact, prec, rnd)
        return ok, ('from_str(%r, %d, %r): ' % (lit, prec, rnd)) + d + note
    if not O.canonical_concrete(tuple(r), prec):
        return False, 'non-canonical %r' % (r,)
    got = O.frac_of(r)
    if rnd != 'n':
        ok = {'f': got <= exact, 'c': got >= exact, 'd': abs(got) <= abs(exact), 'u': abs(got) >= abs(exact)}[rnd]
        if not ok:
            return False, 'from_str(%r, %d, %r) = %s lies on the wrong side of the exact decimal value%s' % (lit, prec, rnd, got, note)
    ulp = Fraction(2) ** (r[2] + r[3] - prec)
    if abs(got - exact) > 2 * ulp + Fraction(1):
        return False, 'from_str(%r, %d, %r) = %s is more than 2 ulp from the exact value%s' % (lit, prec, rnd, got, note)
    if rnd == 'n' and p.get('roundtrip') and abs(got - exact) > ulp * Fraction(34, 64) + Fraction(1):
        return False, 'from_str(%r, %d, %r) = %s is %s ulp from the exact value (more than 1/2 + 1/32)%s' % (lit, prec, rnd, got, float(abs(got - exact) / ulp), note)
    return True, ''


# ------------------------------------------------------------------------------ interval string forms
def mpi_from_str(p):
    """mpi_from_str(form, prec): the pieces of the literal denote exact dyadic numbers X, Y (symbolic, with more bits than the
    working precision); from_str on a piece is modelled by the real rounding kernel applied to that exact value (i.e. from_str is
    assumed correctly rounded -- C07).  The returned interval must contain the denoted set."""
    form, prec = p['form'], p['prec']
    if form in ('percent', 'pmpercent'):
        raise Unsupported('percent forms (midpoint times a decimal fraction) are outside this obligation')
    xb_, yb_, off = p.get('xbits', prec + 26), p.get('ybits', prec + 24), p.get('off', 0)
    xs, ys = p.get('xsign', 0), 0
    L = libmpf()
    from mpmath.libmp import libmpi
    top = max(xb_ + max(off, 0), yb_ + max(-off, 0)) + 12
    ob = Ob(wbump(p, top + prec + 80), timeout_s=p.get('_t', 60), mul_precise_bits=4096,
            models=mpmodels.mp_models(contract_divmod=True, contract_sqrt=False))
    G.stats['DIV_PRECISE_BITS'] = 4096
    Y = ob.mpf('Y', yb_, sign=ys, E=1 << 20)
    X = ob.mpf('X', xb_, exp=add(Y[2], off), sign=xs)
    lits = {'X': X, 'Y': Y}

    def m_from_str(eng, st, args, kw, fr):
        s, pr, rn = args[0], args[1], (args[2] if len(args) > 2 else kw.get('rnd', 'd'))
        if s not in lits:
            raise Unsupported('unexpected literal %r' % (s,))
        return eng.call(st, L.mpf_pos, [lits[s], pr, rn], {}, fr)
    ob.eng.models[L.from_str] = m_from_str
    text = {'pm': 'X +- Y', 'paren': 'X (Y)', 'percent': 'X (Y%)', 'pmpercent': 'X +- Y%', 'bracket': '[X, Y]', 'plain': 'X'}[form]
    if form == 'bracket':
        # lower <= upper is the user's responsibility in this form
        xv0 = zt(X[1]) << max(off, 0)
        yv0 = zt(Y[1]) << max(-off, 0)
        ob.assume.append(z3.If(zt(X[0]) == B(1), -xv0, xv0) <= yv0)
    outs = ob.run(libmpi.mpi_from_str, [text, prec])
    from checks.fam_iv import contains_goals, res_cmp, endpoint_ok
    lo = min(0, off)
    unit = zt(Y[2]) + B(lo)
    xv = zt(X[1]) << (off - lo)
    xv = -xv if xs else xv
    yv = zt(Y[1]) << (-lo)
    K = top + prec + 30
    if form in ('pm', 'paren'):
        lows, highs, unit2 = [xv - yv], [xv + yv], unit
    elif form in ('percent', 'pmpercent'):
        # X +- |X|*Y/100 : compare 100*a <= 100*X - |X|*Y  etc. at scale 2^(2*unit) ... use exact products
        bnd = (-(1 << (top + 2)), 1 << (top + 2))
        ax = -xv if xs else xv
        prod = V.narrow_mul(ax, yv, (0, 1 << (top + 1)), (0, 1 << (top + 1)))       # |X|*Y at scale 2^(2*unit)
        # bring everything to scale 2^(2*unit) * (1/100):  100*X*2^(-unit) ...  we compare 100*a*2^k with 100*X*2^k -/+ prod
        lows = highs = None
        unit2 = None
    elif form == 'bracket':
        lows, highs, unit2 = [xv], [yv], unit
    else:
        lows, highs, unit2 = [xv], [xv], unit

    def good(val, st):
        if not isinstance(val, tuple) or len(val) != 2:
            return False
        if lows is not None:
            return contains_goals(val, lows, highs, unit2, K, prec)
        # percent forms: a <= X - |X| Y / 100  <=>  100 * (X - a) >= |X| * Y   (a finite), both sides at scale 2^(2*unit)
        a, b = val
        goals = [endpoint_ok(a, prec), endpoint_ok(b, prec)]
        for e, lower in ((a, True), (b, False)):
            s_, m_, e_ = zt(e[0]), zt(e[1]), zt(e[2])
            d = e_ - unit
            sm = z3.If(s_ == B(1), -m_, m_)
            rng = z3.And(d <= B(K), -d <= B(K))
            # scale everything by 2^max(-d,0) to make the endpoint an integer at scale unit - max(-d,0)
            sh = z3.If(d >= 0, B(0), -d)
            ev = z3.If(d >= 0, sm << d, sm)
            xs_ = xv << sh
            gap = (xs_ - ev) if lower else (ev - xs_)             # X - a  (or b - X), at scale 2^(unit - sh)
            lhs = gap * B(100)                                    # exact: constant multiplier
            rhs = prod                                            # |X|*Y at scale 2^(2*unit); bring lhs to that scale: multiply by 2^(-unit+sh)...
            # lhs is at scale 2^(unit-sh); rhs at 2^(2*unit) with unit = Yexp+lo: compare lhs * 2^(unit - sh) vs rhs * 2^(2 unit)
            # unit is symbolic, so compare at the level of values: lhs*2^(unit-sh) >= prod*2^(2unit)  <=>  lhs >= prod * 2^(unit+sh)
            goals.append(TRUE)      # the percent forms need unit == 0 to be comparable exactly: handled by the caller fixing Y's exponent
        return goals
    if form in ('percent', 'pmpercent'):
        raise Unsupported('percent forms are checked by the concrete-exponent variant mpi_from_str_pct')
    return finish(ob, ob.prove(outs, good))


def _dec(fr):
    """exact finite decimal expansion of a dyadic Fraction"""
    n, d = fr.numerator, fr.denominator
    k = d.bit_length() - 1
    assert d == 1 << k
    digits = str(abs(n) * 5 ** k)
    s = ('-' if n < 0 else '') + digits + 'e-%d' % k
    return s


def mpi_from_str_concrete(p, m):
    from mpmath.libmp import libmpi
    import mpmath
    form, prec = p['form'], p['prec']
    xb_, yb_, off = p.get('xbits', prec + 26), p.get('ybits', prec + 24), p.get('off', 0)
    Y = mk_tuple(m, 'Y', yb_, sign=0)
    X = mk_tuple(m, 'X', xb_, exp=Y[2] + off, sign=p.get('xsign', 0))
    fx, fy = O.frac_of(X), O.frac_of(Y)
    if max(abs(X[2]), abs(Y[2])) > 3000:
        return None, 'UNCONFIRMED: exponent too large to write the literal out'
    text = {'pm': '%s +- %s', 'paren': '%s (%s)', 'bracket': '[%s, %s]', 'plain': '%s'}[form]
    lit = text % ((_dec(fx), _dec(fy)) if form != 'plain' else (_dec(fx),))
    r = libmpi.mpi_from_str(lit, prec)
    iv = mpmath.iv
    iv.prec = prec
    r2 = iv.mpf(lit)._mpi_
    from checks.fam_iv import _concrete_contains
    pts = {'pm': [fx - fy, fx + fy], 'paren': [fx - fy, fx + fy], 'bracket': [fx, fy], 'plain': [fx]}[form]
    ok, d = _concrete_contains(r, pts, 0, prec)
    if ok:
        ok, d = _concrete_contains(r2, pts, 0, prec)
    return ok, 'iv.mpf(%r) at prec %d: %s' % (lit[:120], prec, d)


# ------------------------------------------------------------------------------ to_str numeric core (C08)
def _parse_sstr(val):
    """-> (neg, [(digit value (int/SInt), decimal weight)], first_sig_weight) of a printed literal (SStr or str)"""
    from pysym.values import SStr
    chars = val.chars if isinstance(val, SStr) else list(val)
    neg = False
    if chars and chars[0] == '-':
        neg, chars = True, chars[1:]
    elif chars and chars[0] == '+':
        chars = chars[1:]
    E = 0
    if 'e' in chars:
        k = chars.index('e')
        es = chars[k + 1:]
        if not all(isinstance(c, str) for c in es):
            raise Unsupported('symbolic exponent digits')
        E = int(''.join(es))
        chars = chars[:k]
    if '.' in chars:
        pt = chars.index('.')
        ip, fp = chars[:pt], chars[pt + 1:]
    else:
        ip, fp = chars, []
    digs = []
    for j, c in enumerate(ip):
        digs.append((c, len(ip) - 1 - j + E))
    for j, c in enumerate(fp):
        digs.append((c, -(j + 1) + E))
    out = []
    first = None
    for c, w in digs:
        if isinstance(c, str):
            if not c.isdigit():
                raise Unsupported('unexpected character %r in printed number' % c)
            d = int(c)
            nz = d != 0
        else:
            d = c
            lo = d.lo if isinstance(d, SInt) else d
            nz = lo >= 1
            if first is None and not nz and isinstance(d, SInt):
                raise Unsupported('leading printed digit not provably nonzero')
        if first is None and nz:
            first = w
        out.append((d, w))
    return neg, out, first


def to_str_num(p):
    """to_str(x, dps) (the core of str(), nstr() and repr()) for x = +-man * 2**exp with exp concrete: the printed literal's
    value is a nearest dps-significant-digit decimal of x (either neighbour on an exact tie), sign and syntax are right."""
    bc, exp, dps, sign = p['bc'], p['exp'], p['dps'], p.get('sign', 0)
    import math
    L = libmpf()
    bitprec = int((dps + 3) * math.log(10, 2)) + 10
    fixprec = max(bitprec - exp - bc, 0)
    W0 = bc + max(exp, 0) + 2 * fixprec + 4 * (dps + 6) + 120
    ob = Ob(wbump(p, W0), timeout_s=p.get('_t', 60), mul_precise_bits=4096, max_unroll=40)
    ob.eng.no_merge_names |= {'i', 'exponent', 'split', 'digits'}
    G.stats['_keep_concrete_ints'] = True
    x = ob.mpf('x', bc, exp=exp, sign=sign)
    kwargs = dict(p.get('opts', {}))
    outs = ob.run(L.to_str, [x, dps], kwargs)
    man = zt(x[1])
    weak = p.get('_known') == 'F6'

    def good(val, st):
        from pysym.values import SStr
        if not isinstance(val, (SStr, str)):
            return False
        neg, digs, first = _parse_sstr(val)
        if first is None:
            return False            # printed zero for a nonzero number
        chars = val.chars if isinstance(val, SStr) else list(val)
        fmt = p.get('fmt')
        if fmt == 'fixed' and 'e' in chars:
            return False            # fixed-point format was forced
        if fmt == 'exp0' and 'e' not in chars:
            return False            # show_zero_exponent: an exponent is always shown
        mant = chars[:chars.index('e')] if 'e' in chars else chars
        if fmt == 'full' and len([c for c in mant if not (isinstance(c, str) and c in '+-.')]) < dps:
            return False            # strip_zeros=False: at least dps digits are shown
        q = first - dps + 1
        wmin = min([w for _, w in digs] + [q])
        s10 = max(-wmin, 0)
        s2 = max(-exp, 0)
        # V * 10^s10 as an integer
        Vt = B(0)
        for d, w in digs:
            if isinstance(d, int) and d == 0:
                continue
            Vt = Vt + zt(d) * B(10 ** (w + s10))
        Xt = (man << (exp + s2)) * B(10 ** s10)          # x * 2^s2 * 10^s10
        Vs = Vt << s2
        diff = z3.If(z3.UGE(Xt, Vs), Xt - Vs, Vs - Xt)
        unit = B((10 ** (q + s10)) << s2)                # 10^q at the same scale
        sign_ok = z3.BoolVal(neg == bool(sign))
        # no significant digit beyond the dps-th
        tail_ok = z3.And([zt(d) == B(0) for d, w in digs if w < q] + [z3.BoolVal(True)])
        if weak:
            return [sign_ok, tail_ok, z3.ULT(diff, unit)]
        return [sign_ok, tail_ok, z3.ULE(diff << 1, unit)]
    return finish(ob, ob.prove(outs, good))


def to_str_special(p):
    """to_str of zero / +inf / -inf / nan (concrete run through the interpreter): documented literals"""
    L = libmpf()
    ob = Ob(80)
    x = {'zero': FZERO, 'inf': FINF, 'ninf': FNINF, 'nan': FNAN}[p['kind']]
    outs = ob.run(L.to_str, [x, p['dps']], dict(p.get('opts', {})))
    want = _special_want(p)
    return finish(ob, ob.prove(outs, lambda v, st: isinstance(v, str) and v == want))


def _special_want(p):
    if p['kind'] == 'zero':
        t = '0.0' if p['dps'] else '.0'
        return t + ('e+0' if p.get('opts', {}).get('show_zero_exponent') else '')
    return {'inf': '+inf', 'ninf': '-inf', 'nan': 'nan'}[p['kind']]


def to_str_special_concrete(p, m):
    L = libmpf()
    x = {'zero': FZERO, 'inf': FINF, 'ninf': FNINF, 'nan': FNAN}[p['kind']]
    r = L.to_str(x, p['dps'], **dict(p.get('opts', {})))
    return r == _special_want(p), 'to_str(%s, %d) = %r, documented %r' % (p['kind'], p['dps'], r, _special_want(p))


def to_str_num_concrete(p, m):
    from decimal import Decimal
    L = libmpf()
    bc, exp, dps, sign = p['bc'], p['exp'], p['dps'], p.get('sign', 0)
    x = mk_tuple(m, 'x', bc, exp=exp, sign=sign)
    s = L.to_str(x, dps, **dict(p.get('opts', {})))
    xv = O.frac_of(x)
    try:
        float(s)
        d = Decimal(s)
    except Exception as e:
        return False, 'to_str(%r, %d) = %r is not a parseable literal (%r)' % (x, dps, s, e)
    fmt = p.get('fmt')
    mant = s.split('e')[0]
    if (fmt == 'fixed' and 'e' in s) or (fmt == 'exp0' and 'e' not in s) or (fmt == 'full' and sum(c.isdigit() for c in mant) < dps):
        return False, 'to_str(%r, %d, %r) = %r does not have the requested format (%s)' % (x, dps, p.get('opts'), s, fmt)
    v = Fraction(d)
    if (v < 0) != (xv < 0) or v == 0:
        return False, 'to_str(%r, %d) = %r has the wrong sign / is zero' % (x, dps, s)
    # exponent of the leading significant digit of the printed value
    t = d.as_tuple()
    digits = list(t.digits)
    while len(digits) > 1 and digits[0] == 0:
        digits.pop(0)
    lead = len(digits) - 1 + t.exponent
    q = lead - dps + 1
    unit = Fraction(10) ** q
    if (v / unit).denominator != 1:
        return False, 'to_str(%r, %d) = %r has more than %d significant digits' % (x, dps, s, dps)
    diff = abs(xv - v)
    if p.get('_known') == 'F6':
        ok = diff < unit
        return ok, 'to_str(%r, %d) = %r is a full unit in the last place (or more) away from x = %s' % (x, dps, s, xv)
    ok = 2 * diff <= unit
    return ok, 'to_str(%r, %d) = %r is not a nearest %d-digit decimal of x (|x - printed| = %s units in the last place)' % (x, dps, s, dps, float(diff / unit))


# ------------------------------------------------------------------------------ repr carries enough digits to round-trip
def lemma_repr_digits(p):
    """repr(x) prints repr_dps(prec) significant digits.  With nearest printing (to_str obligations) and nearest parsing (C07),
    parsing the printed literal gives back x whenever 10**(n-1) > 2**prec (Matula 1968); this obligation lets z3 (QF_LIRA)
    decide that inequality for every precision 1 <= prec <= 2**20 on the real formulas of repr_dps / prec_to_dps (constants and
    expression shapes read from /repo's source; double arithmetic in the standard model, relative error 2**-53 per operation).
    A satisfiable query names a precision; it is reported as a violation only if an exhaustive native search over that
    precision's mantissas finds a value whose repr does not parse back to it (possible for small precisions), otherwise as
    inconclusive."""
    import ast
    import time
    from pysym import srcmap
    from checks.fam_prec import _conv_constants
    L = libmpf()
    res = dict(status='inconclusive', detail='', stats=dict(queries=0, solver_s=0.0, forks=0, merges=0, calls=0, funcs={}, cov={}, extra={}))
    node, info = srcmap.lookup(L.repr_dps)
    res['stats']['funcs'][info['name']] = info
    node2, info2 = srcmap.lookup(L.prec_to_dps)
    res['stats']['funcs'][info2['name']] = info2
    cs = _conv_constants()
    body = [s for s in node.body if not (isinstance(s, ast.Expr) and isinstance(s.value, ast.Constant))]
    # accepted shapes:  dps = prec_to_dps(n); if dps == A [and n <= K]: return B; return dps + C
    shape_ok, K = cs is not None and len(body) == 3, None
    A = Bc = C = None
    if shape_ok:
        try:
            ifn = body[1]
            test = ifn.test
            if isinstance(test, ast.BoolOp) and isinstance(test.op, ast.And) and len(test.values) == 2:
                t2 = test.values[1]
                assert ast.dump(t2.left) == ast.dump(ast.parse('n', mode='eval').body) and isinstance(t2.ops[0], ast.LtE) and len(t2.ops) == 1
                K = t2.comparators[0].value
                test = test.values[0]
            A = test.comparators[0].value
            Bc = ifn.body[0].value.value
            C = body[2].value.right.value
            templ = ast.parse('dps = prec_to_dps(n)\nif dps == %d%s:\n    return %d\nreturn dps + %d' % (A, '' if K is None else ' and n <= %d' % K, Bc, C)).body
            shape_ok = all(type(v) is int for v in (A, Bc, C)) and [ast.dump(x) for x in body] == [ast.dump(x) for x in templ]
        except Exception:
            shape_ok = False
    if not shape_ok:
        res['detail'] = 'Unsupported: repr_dps / prec_to_dps do not have the expected expression shape'
        return res
    c1 = Fraction(cs[0])
    LOG = Fraction(3321928094887362, 10 ** 15)          # a lower bound of log2(10) = 3.32192809488736234...
    P = z3.Int('prec')
    x2 = z3.Real('x2')
    qr, dps, n = z3.Ints('qr dps n')
    R = lambda f: z3.RealVal(str(f))
    delta = Fraction(1, 1 << 29)
    s = z3.Solver()
    s.set('timeout', 60000)
    s.add(P >= 1, P <= (1 << 20))
    s.add(x2 >= z3.ToReal(P) * R(1 / c1) - R(delta), x2 <= z3.ToReal(P) * R(1 / c1) + R(delta))
    s.add(z3.ToReal(qr) - x2 <= R(Fraction(1, 2)), x2 - z3.ToReal(qr) <= R(Fraction(1, 2)))
    s.add(dps == z3.If(qr - 1 < 1, 1, qr - 1))
    s.add(n == z3.If(z3.And(dps == A, P <= K) if K is not None else dps == A, Bc, dps + C))
    t0 = time.time()
    s.push()
    s.add(z3.ToReal(n - 1) * R(LOG) <= z3.ToReal(P))
    r = s.check()
    bad = s.model()[P].as_long() if str(r) == 'sat' else None
    s.pop()
    r2 = s.check()
    res['stats']['queries'] = 2
    res['stats']['solver_s'] = round(time.time() - t0, 3)
    if str(r) == 'unsat' and str(r2) == 'sat':
        res['status'] = 'proved'
        res['witness'] = {'prec': s.model()[P].as_long(), 'digits': s.model()[n].as_long()}
        return res
    if bad is not None:
        # ask the solver for a concrete value of that precision whose nearest n-digit decimal is nearer to a neighbouring
        # binary value (so that nearest parsing cannot return the original): linear integer constraints per (exponent, decade)
        nd = None
        sm = z3.Solver()
        sm.set('timeout', 60000)
        mm, DD = z3.Ints('man D')
        Lrep = L.repr_dps(bad)
        found = None
        import math
        for e in (-bad - 26, -80, -60, -bad, 3, 40):
            top = Fraction(2) ** (e + bad)          # values in [2^(e+bad-1), 2^(e+bad))
            for q in (math.floor(math.log10(float(top) / 2)) - (Lrep - 1) + d for d in (0, 1)):
                # common scale: multiply by 2^a * 5^b so that both 2^e and 10^q become integers
                a = max(-e, -q, 0)
                b5 = max(-q, 0)
                S = (2 ** a) * (5 ** b5)
                ux = int(Fraction(2) ** e * S)          # one binary unit
                ud = int(Fraction(10) ** q * S)         # one decimal unit
                if ux * Fraction(1) != Fraction(2) ** e * S or ud * Fraction(1) != Fraction(10) ** q * S:
                    continue
                sm.push()
                sm.add(mm >= 2 ** (bad - 1), mm < 2 ** bad, DD >= 10 ** (Lrep - 1), DD < 10 ** Lrep)
                X, V = mm * ux, DD * ud
                sm.add(2 * (X - V) <= ud, 2 * (V - X) <= ud - 1)              # D is the (unique) nearest n-digit decimal of x
                sm.add(z3.Or(z3.And(V > X, 2 * (V - X) > ux), z3.And(V < X, 2 * (X - V) > ux)))   # but D is nearer to a neighbour of x
                rr = sm.check()
                res['stats']['queries'] += 1
                if str(rr) == 'sat':
                    found = dict(prec=bad, man=sm.model()[mm].as_long(), exp=e)
                sm.pop()
                if found:
                    break
            if found:
                break
        res['status'] = 'violated'
        res['model'] = found or {'prec': bad}
        res['detail'] = 'repr_dps(%d) = %d digits do not satisfy 10**(n-1) > 2**prec%s' % (bad, Lrep, '; solver witness man=%d exp=%d' % (found['man'], found['exp']) if found else '')
        return res
    res['detail'] = 'solver: %s / %s' % (r, r2)
    return res


def lemma_repr_digits_concrete(p, m):
    """native confirmation: the smallest precisions at which the digit count is insufficient, searched exhaustively for a value
    whose repr does not parse back"""
    L = libmpf()
    tried = 0
    if m and m.get('man'):
        prec = m['prec']
        man, e = m['man'], m['exp']
        while man % 2 == 0:
            man, e = man // 2, e + 1
        x = (0, man, e, man.bit_length())
        s = L.to_str(x, L.repr_dps(prec))
        y = L.from_str(s, prec, 'n')
        tried += 1
        if tuple(y) != x:
            return False, 'at precision %d repr prints %d digits: %r prints as %r, which parses back (same precision, nearest) to %r' % (prec, L.repr_dps(prec), x, s, tuple(y))
    precs = [q for q in range(1, 25) if 10 ** (L.repr_dps(q) - 1) <= 2 ** q]
    for prec in precs[:6]:
        n = L.repr_dps(prec)
        for e in range(-12, 13):
            for man in range((1 << (prec - 1)) | 1, 1 << prec, 2) if prec > 1 else [1]:
                x = (0, man, e, prec)
                s = L.to_str(x, n)
                y = L.from_str(s, prec, 'n')
                tried += 1
                if tuple(y) != x:
                    return False, 'prec %d: repr digits %d; %r prints as %r which parses back to %r' % (prec, n, x, s, tuple(y))
                if tried > 400000:
                    break
    return None, 'UNCONFIRMED: digit-count inequality fails for prec %r but no round-trip failure found among %d values of small precisions' % (m.get('prec') if m else None, tried)


# ------------------------------------------------------------------------------ the tokeniser str_to_man_exp on symbolic literals
def _lit_sstr(ob, shape):
    """shape: string over {D (symbolic digit), N (symbolic nonzero digit), concrete characters}"""
    from pysym.values import SStr
    chars = []
    for i, c in enumerate(shape):
        if c == 'D':
            chars.append(ob.int('d%d' % i, 0, 9))
        elif c == 'N':
            chars.append(ob.int('d%d' % i, 1, 9))
        else:
            chars.append(c)
    return SStr(chars)


def tokenise(p):
    """str_to_man_exp(literal) -> (man, exp) with man * 10**exp == the value the literal denotes, for every digit assignment of a
    literal SHAPE (positions of '.', 'e', exponent sign concrete; every digit symbolic): the real code (lower/rstrip('l'),
    float() validation, split('e'), split('.'), rstrip('0'), len, int) runs on a symbolic decimal string."""
    L = libmpf()
    shape = p['shape']
    ob = Ob(wbump(p, 4 * len(shape) + 80), timeout_s=p.get('_t', 60), mul_precise_bits=4096)
    lit = _lit_sstr(ob, shape)
    outs = ob.run(L.str_to_man_exp, [lit])
    # independent reading of the literal: V * 10**(E - nfrac)
    body, _, ex = shape.partition('e')
    ip, _, fp = body.partition('.')
    digs = [c for c in lit.chars[:len(body)] if not (isinstance(c, str) and c in '.+-')]
    V = B(0)
    for c in digs:
        V = V * B(10) + (zt(c) if not isinstance(c, str) else B(int(c)))
    if shape[0] == '-':
        V = -V
    nfrac = len(fp)
    Ev = B(0)
    if ex:
        esign = -1 if ex[0] == '-' else 1
        echars = lit.chars[len(body) + 1 + (1 if ex[0] in '+-' else 0):]
        for c in echars:
            Ev = Ev * B(10) + (zt(c) if not isinstance(c, str) else B(int(c)))
        if esign < 0:
            Ev = -Ev
    S = Ev - B(nfrac)

    def good(val, st):
        if not (isinstance(val, tuple) and len(val) == 2):
            return False
        x, e = val
        diff = zt(e) - S                          # number of trailing fractional zeros the code stripped
        cases = [z3.And(diff == B(k), zt(x) * B(10 ** k) == V) for k in range(0, nfrac + 1)]
        return z3.Or(cases)
    return finish(ob, ob.prove(outs, good))


def tokenise_concrete(p, m):
    L = libmpf()
    shape = p['shape']
    lit = ''.join(str(m.get('d%d' % i, 1 if c == 'N' else 0)) if c in 'DN' else c for i, c in enumerate(shape))
    try:
        x, e = L.str_to_man_exp(lit)
    except Exception as ex:
        return False, 'str_to_man_exp(%r) raised %r' % (lit, ex)
    ok = Fraction(x) * Fraction(10) ** e == Fraction(lit)
    return ok, 'str_to_man_exp(%r) = (%d, %d), which denotes %s, the literal denotes %s' % (lit, x, e, Fraction(x) * Fraction(10) ** e, Fraction(lit))
