"""C16 -- interval comparisons are sound three-valued predicates."""
from checks import c02 as _c02
from checks.c14 import P, N, Z, NI, PI, sign_patterns

PROPERTY = 'C16'
LEVEL = 'other'
FI = 'checks.fam_iv:'
EXPLANATION = (
    "Bounded symbolic verification of mpi_lt/mpi_le/mpi_gt/mpi_ge/mpi_eq/mpi_ne and of the iv.mpf operators <, <=, >, >=, ==, != "
    "and `in` (ivmpf._compare, __contains__) executed from /repo's source (they call the exact mpf comparison kernels).  Endpoint "
    "kinds (incl. +-inf), bit lengths and relative exponents are concrete per obligation, mantissas and base exponent symbolic, "
    "lower <= upper assumed.  The solver decides the exact three-valued table: the result is True iff the relation holds for "
    "every pair of member points (reduced to an endpoint inequality), False iff it fails for every pair, None otherwise -- for "
    "ALL mantissas, so touching, nested, overlapping, equal and disjoint configurations of each shape are all covered; `in` is "
    "True exactly when the left interval lies inside the right one; == and != compare endpoints exactly."
)
TRUSTED = _c02.TRUSTED
ASSUMPTIONS = ["interval invariant lower <= upper", "endpoint kinds/bit lengths/relative exponents concrete per obligation"]
BUDGET = {'quick': dict(ob_deadline_s=60, total_s=120), 'thorough': dict(ob_deadline_s=300, total_s=900)}
BOUNDS = {'quick': 'endpoint mantissas 1..7 bits; shapes with equal bit lengths/exponents (so touching and equal endpoints are reachable) and different ones; infinite endpoints'}


def obligations(tier, seed=0):
    obs = []

    def add(**kw):
        obs.append((FI + 'iv_cmp', kw))
    same = [[P(4, 0), P(4, 0)], [P(4, 0), P(5, 0)], [N(4, 0), P(4, 0)], [N(5, 0), N(4, 0)], [Z, P(4, 0)], [N(4, 0), Z], [P(4, 0), PI], [NI, P(4, 0)], [NI, PI], [Z, Z], [N(4, 0), N(4, 0)]]
    other = [[P(3, 2), P(6, 1)], [N(6, -1), P(2, 3)], [N(5, 1), N(3, -2)]]
    shapes = [(s, t) for s in same for t in same] + [(s, t) for s in same[:6] for t in other] + [(t, s) for s in same[:6] for t in other]
    for s, t in shapes:
        for fn in ('mpi_lt', 'mpi_le', 'mpi_gt', 'mpi_ge'):
            add(fn=fn, s=s, t=t)
    for s, t in [(a, b) for a in same[:8] for b in same[:8]]:
        for fn in ('<', '<=', '>', '>=', '==', '!=', 'in'):
            add(fn=fn, s=s, t=t, entry='op')
    if tier == 'thorough':
        # longer endpoints and exponent offsets
        big = [[P(12, 0), P(12, 0)], [P(12, 0), P(13, 0)], [N(12, 0), P(12, 0)], [N(13, 0), N(12, 0)], [P(20, -5), P(9, 7)], [N(9, 7), P(20, -5)], [N(20, 3), N(20, 3)], [Z, P(30, 0)]]
        for s in big:
            for t in big:
                for fn in ('mpi_lt', 'mpi_le', 'mpi_gt', 'mpi_ge'):
                    add(fn=fn, s=s, t=t)
                for fn in ('<', '>=', '==', 'in'):
                    add(fn=fn, s=s, t=t, entry='op')
    # seeded random endpoint shapes (deterministic for a given VERIF_SEED)
    import random
    rng = random.Random(6000 + int(seed or 0))

    def rnd_iv():
        k = rng.random()
        b1, o1 = rng.randint(1, 8), rng.randint(-4, 4)
        b2, o2 = b1 + rng.randint(0, 3), o1 + rng.randint(0, 3)
        pats = [[P(b1, o1), P(b2, o2)], [N(b2, o2), N(b1, o1)], [N(b1, o1), P(b2, o2)], [Z, P(b2, o2)], [N(b1, o1), Z], [P(b1, o1), PI], [NI, N(b1, o1)], [NI, P(b1, o1)],
                [N(b1, o1), PI], [P(b1, o1), P(b1, o1)], [N(b1, o1), N(b1, o1)]]
        return rng.choice(pats)
    for _ in range(40 if tier != 'thorough' else 200):
        s_, t_ = rnd_iv(), rnd_iv()
        add(fn=rng.choice(['mpi_lt', 'mpi_le', 'mpi_gt', 'mpi_ge']), s=s_, t=t_)
        add(fn=rng.choice(['<', '<=', '>', '>=', '==', '!=', 'in']), s=s_, t=t_, entry='op')
    # degenerate intervals at an infinity and at zero on either side of every relation and of `in`
    deg = [[PI, PI], [NI, NI], [Z, Z], [P(4, 0), P(4, 0)], [NI, PI], [NI, Z], [Z, PI]]
    for s in deg:
        for t in deg:
            for fn in ('<', '<=', '>', '>=', '==', '!=', 'in'):
                add(fn=fn, s=s, t=t, entry='op')
    # an interval compared with itself (same object): only a point interval gives a definite answer
    for s in same + other:
        for fn in ('mpi_lt', 'mpi_le', 'mpi_gt', 'mpi_ge'):
            add(fn=fn, s=s, t=s, alias=True)
        for fn in ('<', '<=', '>', '>=', '==', '!=', 'in'):
            add(fn=fn, s=s, t=s, alias=True, entry='op')
    # an interval against a plain Python int whose mantissa is longer than iv.prec (the number denotes itself exactly)
    for s in ([P(3, 3), P(3, 3)], [P(3, 2), P(3, 3)], [N(3, 3), P(3, 3)], [Z, P(3, 3)], [N(3, 3), N(3, 2)]):
        for nbc in (6, 7):
            for nneg in (0, 1):
                for fn in ('<', '<=', '>', '>=', '==', '!='):
                    obs.append((FI + 'iv_cmp_num', dict(fn=fn, s=s, nbc=nbc, nneg=nneg, prec=3)))
    return obs
