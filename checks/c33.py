"""C33 -- cached state never leaks stale or wrong results (partial: protocol of the constant cache, invalidation of the matrix LU cache)."""
from checks import c17 as _c17

PROPERTY = 'C33'
LEVEL = 'other'
FC = 'checks.fam_cache:'
EXPLANATION = (
    "Bounded symbolic verification of the cache protocol of constant_memo (the cache behind pi, e, ln2, ln10, phi, euler, "
    "catalan, ... ) executed from /repo's source for the real memoised closures: starting from ANY valid cache state (empty, or "
    "memo_prec symbolic in 0..64 with memo_val = F(memo_prec)) a request at any grid precision either returns F(prec) -- the "
    "value a fresh process would compute, never a lower-accuracy cached one -- or, when the series routine raises at that point, "
    "propagates the exception and leaves the cache VALID (precision label and value still consistent), so that later requests "
    "are unaffected.  The series routine is the idealised F(q) = floor(C*2^q) of C17.  The other caches named by the property "
    "(Bernoulli numbers, log/atan/cos-sin tables, quadrature nodes, hypergeometric summators, memoize, odefun) "
    "store results of numeric kernels whose accuracy is outside the encoding; their protocols are not covered by this check.  "
    "Matrix LU cache (lu_invalidate): matrix.__setitem__ of the current tree is executed from a 3x3 matrix (stored zeros and "
    "non-zeros) whose _LU cache is filled, for every in-range element index, whole rows, whole columns and the whole matrix, with "
    "the assigned value a symbolic Python int in -2..2 (zero included), a symbolic 10-bit mpf, and exact zeros of type mpf, mpc "
    "and float: on every normally returning path the cached decomposition must be gone.  A counterexample is replayed through "
    "LU_decomp on a real matrix against a matrix with the same entries and no history.  Only the invalidation step is covered: "
    "LU_decomp's own use of the cache at another precision, and other mutators (the private element setter is reached only "
    "through __setitem__), are not."
)
TRUSTED = _c17.TRUSTED
ASSUMPTIONS = _c17.ASSUMPTIONS + ["fault model: the series routine raises instead of returning (the only call the wrapper makes)"]
BUDGET = {'quick': dict(ob_deadline_s=60, total_s=120), 'thorough': dict(ob_deadline_s=300, total_s=900)}
BOUNDS = {'quick': 'every memoised constant routine found in libelefun/gammazeta; prec in {1,2,5,10,20,33,50}; cache states empty / any valid; with and without a failing series routine; LU cache: 3x3 (thorough 2x2..4x4), 9 element indices + 3 rows + 3 columns + whole matrix, 5 kinds of assigned value (int -2..2 and 10-bit mpf symbolic)'}


def memoized_constants():
    out = []
    import mpmath.libmp.libelefun as LE
    import mpmath.libmp.gammazeta as GZ
    for mod in (LE, GZ):
        for name in sorted(dir(mod)):
            g = getattr(mod, name)
            if callable(g) and getattr(g, '__closure__', None) and 'f' in getattr(g.__code__, 'co_freevars', ()) and name.endswith('_fixed'):
                try:
                    f = dict(zip(g.__code__.co_freevars, g.__closure__))['f'].cell_contents
                except Exception:
                    continue
                if hasattr(f, 'memo_prec'):
                    out.append((mod.__name__, name))
    return out


def obligations(tier, seed=0):
    obs = []
    for modname, name in memoized_constants():
        for prec in ((1, 2, 5, 10, 20, 33, 50) if tier != 'thorough' else (1, 2, 3, 4, 5, 7, 10, 13, 20, 21, 22, 30, 33, 40, 45, 50)):
            for state in ('empty', 'filled'):
                for fault in (0, 1):
                    obs.append((FC + 'const_memo', dict(name=name, mod=modname, prec=prec, state=state, fault=fault)))
    # matrix LU cache: one mutation step from a matrix whose cache is filled
    for n in ((3,) if tier != 'thorough' else (2, 3, 4)):
        for key in ('elem', 'row', 'col', 'all'):
            ijs = [(i, j) for i in range(n) for j in range(n)] if key == 'elem' else [(i, i) for i in range(n)] if key in ('row', 'col') else [(0, 0)]
            for i, j in ijs:
                for value in ('int', 'mpf', 'zero', 'mpc0', 'float0'):
                    obs.append((FC + 'lu_invalidate', dict(n=n, key=key, i=i, j=j, value=value)))
    return obs
