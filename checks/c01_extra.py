"""extra C01 obligations: equality <=> identical tuple, pickling keeps the encoding"""
FC = 'checks.fam_cmp:'


def obligations(tier, seed=0):
    obs = []
    for sbc, tbc, off in [(5, 5, 0), (5, 7, 2), (7, 5, -2), (1, 1, 0), (1, 1, 3), (6, 3, 3), (9, 9, 0)]:
        obs.append((FC + 'cmp', dict(sbc=sbc, tbc=tbc, off=off, fn='mpf_eq')))
        obs.append((FC + 'cmp', dict(sbc=sbc, tbc=tbc, off=off, fn='mpf_cmp')))
        obs.append((FC + 'cmp', dict(sbc=sbc, tbc=tbc, off=off, fn='==', entry='op')))
    for kind in ('fin', 'zero', 'inf', 'ninf', 'nan'):
        for entry in ('libmp', 'mpf', 'mpc'):
            obs.append((FC + 'pickle_rt', dict(kind=kind, bc=9, entry=entry)))
    obs.append((FC + 'pickle_rt', dict(kind='fin', bc=1, entry='libmp')))
    obs.append((FC + 'pickle_rt', dict(kind='fin', bc=70, entry='mpf')))
    return obs
