"""C37 -- pure-Python and GMP backends give identical core results (partial: in-tree twins)."""
from vlib.oracle import RNDS
from checks import c02 as _c02

PROPERTY = 'C37'
LEVEL = 'translation_validation'
FT = 'checks.fam_twin:'
TECHNIQUE = 'translation validation between the in-repo twin implementations by symbolic execution of both (pysym) + SMT equivalence query (z3 QF_BV)'
EXPLANATION = (
    "gmpy2 is not installed in this sandbox and its C routines cannot be encoded; what /repo contains regardless of the backend "
    "are Python twins, and those are validated against each other: python_mpf_mul vs gmpy_mpf_mul and python_mpf_mul_int vs "
    "gmpy_mpf_mul_int are both executed symbolically on the same symbolic operands (the pure-Python versions derive the bit count "
    "from the operands' bit counts, the gmpy versions recompute it) and the solver decides that the returned tuples are "
    "identical for all mantissas/signs/exponents of each shape and every rounding mode; python_bitcount (bisect table and the "
    "math.log fallback above 300 bits) is proved equal to the bit length and python_trailing to the trailing-zero count, i.e. the "
    "contracts of the GMP primitives they replace.  Nothing is claimed about gmpy2's own C code (_mpmath_normalize, "
    "_mpmath_create) or about elementary functions under the two backends."
)
TRUSTED = _c02.TRUSTED
ASSUMPTIONS = ["bitcount(n) of the gmpy twin is modelled by the same python_bitcount source (BACKEND == 'python' in this sandbox)"]
BUDGET = {'quick': dict(ob_deadline_s=100, total_s=150), 'thorough': dict(ob_deadline_s=600, total_s=1800)}
BOUNDS = {'quick': 'twin products 1..12-bit operands precise, 53x53 and 120x80 with shared abstract product; bit primitives for 1..330-bit integers'}
PROGRAMS = 4


def obligations(tier, seed=0):
    obs = []
    for sbc, tbc, prec in [(1, 1, 1), (3, 4, 2), (5, 6, 4), (8, 8, 8), (12, 12, 10), (9, 1, 3), (7, 9, 0), (53, 53, 53), (120, 80, 53)]:
        for rnd in RNDS:
            obs.append((FT + 'twin_mul', dict(kind='mul', sbc=sbc, tbc=tbc, prec=prec, rnd=rnd)))
    for sbc, nbc, prec in [(5, 4, 4), (5, 1, 3), (9, 3, 5), (30, 12, 24), (53, 11, 53)]:
        for rnd in RNDS:
            for nneg in (0, 1):
                obs.append((FT + 'twin_mul', dict(kind='mul_int', sbc=sbc, tbc=nbc, prec=prec, rnd=rnd, nneg=nneg)))
    for bits in (1, 2, 3, 8, 9, 64, 255, 256, 299, 300, 301, 302, 330):
        obs.append((FT + 'bit_prims', dict(fn='python_bitcount', bits=bits)))
    for bits in (1, 2, 7, 8, 9, 16, 17, 40, 100):
        obs.append((FT + 'bit_prims', dict(fn='python_trailing', bits=bits)))
    for bits in (4, 7, 10, 13, 16):
        obs.append((FT + 'sqrtrem_loops', dict(bits=bits)))
    # the python rounding kernel with more than 300 bits discarded (gmpy's C kernel has no such table): correct rounding
    for rnd in RNDS:
        obs.append(('checks.fam_arith:normalize', dict(bc=310, prec=5, rnd=rnd, which='_normalize')))
        obs.append(('checks.fam_arith:from_man_exp', dict(bc=320, prec=9, rnd=rnd)))
    if tier == 'thorough':
        for sbc, tbc, prec in [(16, 16, 11), (20, 14, 7), (24, 24, 24), (64, 64, 53), (113, 113, 113), (200, 200, 113)]:
            for rnd in RNDS:
                obs.append((FT + 'twin_mul', dict(kind='mul', sbc=sbc, tbc=tbc, prec=prec, rnd=rnd, _t=300)))
        for sbc, nbc, prec in [(24, 24, 24), (64, 40, 53), (113, 30, 64), (300, 7, 113)]:
            for rnd in RNDS:
                for nneg in (0, 1):
                    obs.append((FT + 'twin_mul', dict(kind='mul_int', sbc=sbc, tbc=nbc, prec=prec, rnd=rnd, nneg=nneg, _t=300)))
        for bits in (4, 5, 6, 7, 31, 32, 33, 63, 65, 127, 128, 129, 257, 298, 303, 400, 500, 600):
            obs.append((FT + 'bit_prims', dict(fn='python_bitcount', bits=bits)))
        for bits in (3, 4, 5, 6, 15, 18, 24, 31, 32, 33, 64, 65, 200):
            obs.append((FT + 'bit_prims', dict(fn='python_trailing', bits=bits)))
        for bits in (5, 6, 8, 9, 11, 12, 14, 15, 18, 20):
            obs.append((FT + 'sqrtrem_loops', dict(bits=bits, _t=300)))
    return obs
