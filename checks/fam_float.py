"""Families for machine-float conversion (C09): from_float on the dyadic float model, to_float / float() / complex()."""
import math
import operator
from fractions import Fraction

import z3

from pysym import values as V
from pysym.values import G, SInt, SBool, bvv, zt, zb, binop, Unsupported
from pysym.models import SFloat, SComplex
from vlib.ob import Ob, add, sub
from vlib import oracle as O
from vlib.oracle import B, ref_round, canonical, is_tuple, value_matches, FZERO, FNAN, FINF, FNINF
from checks.fam_arith import finish, wbump, mk_tuple, libmpf, FALSE, TRUE, E30, _ctx, aspect_good


def from_float(p):
    """from_float(x, prec, rnd) / mpf(x) for a finite double x = +-M * 2**E, M with `mbits` bits (53 = normal doubles,
    fewer = subnormals or short mantissas), E symbolic"""
    mbits, prec, rnd = p['mbits'], p.get('prec', 53), p.get('rnd', 'd')
    ob = Ob(wbump(p, 53 + 70), timeout_s=p.get('_t', 60))
    Ma = ob.int('M', 1 << (mbits - 1), (1 << mbits) - 1) if mbits > 1 else 1
    neg = p.get('neg', 0)
    M = V.neg(Ma) if neg else Ma
    E = ob.int('E', -1074, 971)
    x = SFloat(M, E)
    L = libmpf()
    entry = p.get('entry', 'libmp')
    if entry == 'libmp':
        outs = ob.run(L.from_float, [x] + ([prec, rnd] if 'prec' in p else []))
        unwrap = lambda v, st: v
    else:
        mp = _ctx(prec)
        outs = ob.run(mp.mpf, [x])
        rnd = 'n'
        cls = mp.mpf

        def unwrap(v, st):
            if not isinstance(v, cls):
                return None
            h = st.heap.get((id(v), '_mpf_'))
            return h[1] if h is not None else v._mpf_

    def good(val, st):
        val = unwrap(val, st)
        if val is None:
            return False
        R = ref_round(zt(Ma), FALSE, prec, rnd, z3.BoolVal(bool(neg)), mbits, mbits)
        return value_matches(val, z3.BoolVal(bool(neg)), R, zt(E), mbits + 1, prec)
    return finish(ob, ob.prove(outs, good))


def from_float_concrete(p, m):
    L = libmpf()
    M = m.get('M', 1)
    if p.get('neg'):
        M = -M
    x = math.ldexp(M, m['E'])
    if Fraction(x) != Fraction(M) * Fraction(2) ** m['E']:
        return True, 'model value is not a double (outside the float model)'
    prec, rnd = p.get('prec', 53), p.get('rnd', 'd')
    if p.get('entry', 'libmp') == 'libmp':
        r = L.from_float(x, *([prec, rnd] if 'prec' in p else []))
    else:
        mp = _ctx(prec)
        try:
            r = mp.mpf(x)._mpf_
        finally:
            mp.prec = 53
        rnd = 'n'
    return O.check_rounded(r, Fraction(x), prec, rnd)


def from_float_special(p):
    """the non-finite doubles and zeros: concrete run through the interpreter (no symbolic content)"""
    ob = Ob(80)
    x = {'inf': float('inf'), 'ninf': float('-inf'), 'nan': float('nan'), 'zero': 0.0, 'nzero': -0.0}[p['kind']]
    want = {'inf': FINF, 'ninf': FNINF, 'nan': FNAN, 'zero': FZERO, 'nzero': FZERO}[p['kind']]
    outs = ob.run(libmpf().from_float, [x])
    return finish(ob, ob.prove(outs, lambda v, st: tuple(v) == want))


def from_float_special_concrete(p, m):
    x = {'inf': float('inf'), 'ninf': float('-inf'), 'nan': float('nan'), 'zero': 0.0, 'nzero': -0.0}[p['kind']]
    want = {'inf': FINF, 'ninf': FNINF, 'nan': FNAN, 'zero': FZERO, 'nzero': FZERO}[p['kind']]
    r = libmpf().from_float(x)
    return tuple(r) == want, 'from_float(%r) = %r' % (x, r)


def to_float(p):
    """to_float(s, rnd=...) / float(x): nearest double (ties to even) in the normal range, +-inf beyond the largest double.
    bc concrete, exponent symbolic in a window [elo, ehi]"""
    bc, elo, ehi, rnd = p['bc'], p['elo'], p['ehi'], p.get('rnd', 'n')
    ob = Ob(wbump(p, bc + 80), timeout_s=p.get('_t', 60))
    x = ob.mpf('x', bc, exp=ob.int('x_exp', elo, ehi), sign=p.get('sign', 0))     # sign is part of the shape
    L = libmpf()
    entry = p.get('entry', 'libmp')
    if entry == 'libmp':
        outs = ob.run(L.to_float, [x], dict(rnd=rnd))
    else:
        mp = _ctx(53)
        outs = ob.run(mp.mpf.__float__, [mp.make_mpf(x)])
        rnd = 'n'
    neg = zt(x[0]) == B(1)
    m, e = zt(x[1]), zt(x[2])
    R = ref_round(m, FALSE, 53, rnd, neg, bc, bc)       # magnitude at scale 2**e
    # rounded value >= 2**1024  <=>  R * 2**e >= 2**1024 ; R has bc or bc+1 bits
    Rtop = z3.If(z3.UGE(R, B(1 << bc)), B(bc + 1), B(bc))
    overflow = (e + Rtop) > B(1024)

    def good(val, st):
        if isinstance(val, SFloat):
            fm, fe = zt(val.m), zt(val.e)
            d = fe - e
            return [z3.Not(overflow), z3.And(d >= B(0), d <= B(bc + 1), (fm << d) == z3.If(neg, -R, R))]
        if isinstance(val, float):
            if val == float('inf'):
                return z3.And(overflow, z3.Not(neg))
            if val == float('-inf'):
                return z3.And(overflow, neg)
        return False
    return finish(ob, ob.prove(outs, good))


def to_float_concrete(p, m):
    L = libmpf()
    x = mk_tuple(m, 'x', p['bc'], sign=p.get('sign', 0))
    rnd = p.get('rnd', 'n')
    if p.get('entry', 'libmp') == 'libmp':
        r = L.to_float(x, rnd=rnd)
    else:
        mp = _ctx(53)
        r = float(mp.make_mpf(x))
        rnd = 'n'
    want = O.round_fraction(O.frac_of(x), 53, rnd)
    if abs(want) >= Fraction(2) ** 1024:
        ok = r == (float('-inf') if want < 0 else float('inf'))
        return ok, 'to_float(%r) = %r, expected infinity' % (x, r)
    ok = (not math.isinf(r)) and Fraction(r) == want
    return ok, 'to_float(%r, rnd=%s) = %r, correctly rounded double is %s' % (x, rnd, r, want)


_SPEC = {'zero': FZERO, 'inf': FINF, 'ninf': FNINF, 'nan': FNAN}


def _cpart(ob, name, kind, bc, sign):
    if kind in _SPEC:
        return _SPEC[kind]
    lo, hi = (-200, 200) if kind == 'fin' else (1024 - bc - 3, 1024 - bc + 3)       # 'huge': around the overflow threshold
    return ob.mpf(name, bc, exp=ob.int(name + '_exp', lo, hi), sign=sign)


def _comp_good(f, x, kind, b):
    """component f of the returned complex against the mpf component x"""
    if kind == 'zero':
        return isinstance(f, float) and f == 0.0 and math.copysign(1.0, f) == 1.0
    if kind == 'inf':
        return isinstance(f, float) and f == float('inf')
    if kind == 'ninf':
        return isinstance(f, float) and f == float('-inf')
    if kind == 'nan':
        return isinstance(f, float) and f != f
    neg = zt(x[0]) == B(1)
    e = zt(x[2])
    R = ref_round(zt(x[1]), FALSE, 53, 'n', neg, b, b)
    Rtop = z3.If(z3.UGE(R, B(1 << b)), B(b + 1), B(b))
    overflow = (e + Rtop) > B(1024)
    if isinstance(f, SFloat):
        fm, fe = zt(f.m), zt(f.e)
        d = fe - e
        return z3.And(z3.Not(overflow), d >= B(0), d <= B(b + 1), (fm << d) == z3.If(neg, -R, R))
    if isinstance(f, float) and f == float('inf'):
        return z3.And(overflow, z3.Not(neg))
    if isinstance(f, float) and f == float('-inf'):
        return z3.And(overflow, neg)
    return False


def to_complex(p):
    """complex(z) / mpc_to_complex: each component converted like float(), independently of the other: finite components
    (symbolic), components around the overflow threshold ('huge'), exact zeros and inf/nan components"""
    bc = p['bc']
    rk, ik = p.get('rkind', 'fin'), p.get('ikind', 'fin')
    ob = Ob(wbump(p, bc + 80), timeout_s=p.get('_t', 60))
    re = _cpart(ob, 're', rk, bc, p.get('rsign', 0))
    im = _cpart(ob, 'im', ik, 3, p.get('isign', 1))
    mp = _ctx(53)
    outs = ob.run(mp.mpc.__complex__, [mp.make_mpc((re, im))])

    def good(val, st):
        if not isinstance(val, (SComplex, complex)):
            return False
        g = [_comp_good(val.real, re, rk, bc), _comp_good(val.imag, im, ik, 3)]
        return [z3.BoolVal(x) if isinstance(x, bool) else x for x in g]
    return finish(ob, ob.prove(outs, good))


def to_complex_concrete(p, m):
    mp = _ctx(53)
    rk, ik = p.get('rkind', 'fin'), p.get('ikind', 'fin')
    re = _SPEC[rk] if rk in _SPEC else mk_tuple(m, 're', p['bc'], sign=p.get('rsign', 0))
    im = _SPEC[ik] if ik in _SPEC else mk_tuple(m, 'im', 3, sign=p.get('isign', 1))
    c = complex(mp.make_mpc((re, im)))

    def ok1(f, x, kind):
        if kind == 'zero':
            return f == 0.0
        if kind == 'inf':
            return f == float('inf')
        if kind == 'ninf':
            return f == float('-inf')
        if kind == 'nan':
            return f != f
        want = O.round_fraction(O.frac_of(x), 53, 'n')
        if abs(want) >= Fraction(2) ** 1024:
            return f == (float('-inf') if want < 0 else float('inf'))
        return (not math.isinf(f)) and f == f and Fraction(f) == want
    ok = ok1(c.real, re, rk) and ok1(c.imag, im, ik)
    return ok, 'complex(mpc(%r, %r)) = %r' % (re, im, c)
