"""C40 -- pickling and copying preserve values exactly (partial: the tuple encoding)."""
from checks import c02 as _c02

PROPERTY = 'C40'
LEVEL = 'other'
FC = 'checks.fam_cmp:'
EXPLANATION = (
    "Bounded symbolic verification of the encoding layer that pickle and copy use: to_pickable/from_pickable and "
    "_mpf.__getstate__/__setstate__, _mpc.__getstate__/__setstate__ are executed symbolically from /repo's source with hex(n)[2:] "
    "/ int(s, 16) modelled as an inverse pair on n >= 0; the solver decides that the reconstructed tuple equals the original "
    "component by component for ALL regular values of the shape (sign, mantissa, exponent symbolic) and for the four special "
    "encodings (whose bit-count fields are negative sentinels).  The real pickle byte stream for every protocol and copy.copy are "
    "exercised in the concrete replay twin only; matrices and aliasing are outside the claim."
)
TRUSTED = _c02.TRUSTED + ["hex(n)[2:] and int(s, 16) are inverse on n >= 0 (CPython)"]
ASSUMPTIONS = ["values are canonical raw mpf tuples", "pickle/copy themselves (C code) call __getstate__/__setstate__ (__reduce_ex__ protocol) faithfully"]
BUDGET = {'quick': dict(ob_deadline_s=60, total_s=100), 'thorough': dict(ob_deadline_s=300, total_s=600)}
BOUNDS = {'quick': 'mantissas of 1, 9, 70 and 300 bits, exponents +-2^30, the four special encodings; mpf and mpc state methods'}


def obligations(tier, seed=0):
    obs = []
    for kind in ('fin', 'zero', 'inf', 'ninf', 'nan'):
        for entry in ('libmp', 'mpf', 'mpc'):
            for bc in ((1, 9, 70, 300) if kind == 'fin' else (9,)):
                obs.append((FC + 'pickle_rt', dict(kind=kind, bc=bc, entry=entry)))
    # complex values whose imaginary part is a special value
    for kind in ('fin', 'zero', 'inf', 'nan'):
        for ikind in ('zero', 'inf', 'ninf', 'nan'):
            obs.append((FC + 'pickle_rt', dict(kind=kind, bc=9, entry='mpc', ikind=ikind)))
    # copy.copy / copy.deepcopy of a value longer than the current working precision
    for bc in (9, 70):
        for entry in ('copy', 'deepcopy'):
            obs.append((FC + 'pickle_rt', dict(kind='fin', bc=bc, entry=entry, cprec=5)))
    if tier == 'thorough':
        for bc in (2, 3, 53, 64, 1000, 4000):
            for entry in ('libmp', 'mpf', 'mpc'):
                obs.append((FC + 'pickle_rt', dict(kind='fin', bc=bc, entry=entry)))
    return obs
