"""Families for comparisons, equality, hashing and pickling (C05, C01, C40)."""
import operator
import sys
from fractions import Fraction

import z3

from pysym import values as V
from pysym.values import G, SInt, SBool, bvv, zt, zb, binop, Unsupported
from vlib.ob import Ob, add, sub
from vlib import oracle as O
from vlib.oracle import B, canonical, is_tuple, FZERO, FNAN, FINF, FNINF
from checks.fam_arith import finish, wbump, mk_tuple, libmpf, FALSE, TRUE, E30, _ctx, SPECIALS

P = sys.hash_info.modulus      # 2**61 - 1
HASH_INF = sys.hash_info.inf
HASH_NAN = sys.hash_info.nan
HASH_IMAG = sys.hash_info.imag


def _diff(s, t, off):
    sm, tm = zt(s[1]), zt(t[1])
    if off >= 0:
        S, T = sm << off, tm
    else:
        S, T = sm, tm << (-off)
    return z3.If(zt(s[0]) == B(1), -S, S) - z3.If(zt(t[0]) == B(1), -T, T)


CMP_FUNCS = {'mpf_cmp': None, 'mpf_lt': '<', 'mpf_le': '<=', 'mpf_gt': '>', 'mpf_ge': '>=', 'mpf_eq': '=='}
PYOPS = {'<': operator.lt, '<=': operator.le, '>': operator.gt, '>=': operator.ge, '==': operator.eq, '!=': operator.ne}


def _want(rel, X):
    zero = B(0)
    if rel is None:
        return lambda v: zt(v) == z3.If(X < zero, B(-1), z3.If(X == zero, zero, B(1)))
    c = {'<': X < zero, '<=': X <= zero, '>': X > zero, '>=': X >= zero, '==': X == zero, '!=': X != zero}[rel]
    return lambda v: zb(v) == c if isinstance(v, (bool, SBool, SInt, int)) else False


def cmp(p):
    """mpf_cmp / mpf_lt / ... / mpf_eq on two finite operands, or the operators of the mpf type"""
    sbc, tbc, off, fn = p['sbc'], p['tbc'], p['off'], p['fn']
    top = max(sbc + max(off, 0), tbc + max(-off, 0)) + 2
    ob = Ob(wbump(p, top + 64), timeout_s=p.get('_t', 60))
    t = ob.mpf('t', tbc)
    s = ob.mpf('s', sbc, exp=add(t[2], off))
    L = libmpf()
    X = _diff(s, t, off)
    entry = p.get('entry', 'libmp')
    if entry == 'libmp':
        outs = ob.run(getattr(L, fn), [s, t])
        good = _want(CMP_FUNCS[fn], X)
    else:
        mp = _ctx(53)
        x, y = mp.make_mpf(s), mp.make_mpf(t)
        meth = {'<': '__lt__', '<=': '__le__', '>': '__gt__', '>=': '__ge__', '==': '__eq__', '!=': '__ne__'}[fn]
        outs = ob.run(getattr(mp.mpf, meth), [x, y])
        good = _want(fn, X)
    return finish(ob, ob.prove(outs, lambda v, st: good(v)))


def cmp_concrete(p, m):
    L = libmpf()
    t = mk_tuple(m, 't', p['tbc'])
    s = mk_tuple(m, 's', p['sbc'], exp=t[2] + p['off'])
    E0 = min(s[2], t[2])
    a, b = O.frac_of(s, E0), O.frac_of(t, E0)
    fn = p['fn']
    if p.get('entry', 'libmp') == 'libmp':
        r = getattr(L, fn)(s, t)
        rel = CMP_FUNCS[fn]
    else:
        mp = _ctx(53)
        r = PYOPS[fn](mp.make_mpf(s), mp.make_mpf(t))
        rel = fn
    want = ((a > b) - (a < b)) if rel is None else PYOPS[rel](a, b)
    return r == want, '%s(%r, %r) = %r, exact comparison gives %r' % (fn, s, t, r, want)


def cmp_int(p):
    """mpf <op> int through the operators (mpf_convert_rhs / from_int): x = +-man*2^exp (exp concrete), n symbolic int.
    With `fexp` the right-hand side is the Python float n * 2**fexp (dyadic float model; from_float)."""
    bc, exp, nbc, nneg, fn = p['bc'], p['exp'], p['nbc'], p['nneg'], p['fn']
    fexp = p.get('fexp')
    if fexp is not None:
        return _cmp_float(p)
    top = max(bc + max(exp, 0), nbc + max(-exp, 0)) + 2
    ob = Ob(wbump(p, top + 64), timeout_s=p.get('_t', 60))
    xs = ob.mpf('x', bc, exp=exp)
    na = ob.int('n_abs', 1 << (nbc - 1), (1 << nbc) - 1) if nbc > 1 else (1 if nbc == 1 else 0)
    n = V.neg(na) if nneg else na
    mp = _ctx(53)
    x = mp.make_mpf(xs)
    meth = {'<': '__lt__', '<=': '__le__', '>': '__gt__', '>=': '__ge__', '==': '__eq__', '!=': '__ne__'}[fn]
    outs = ob.run(getattr(mp.mpf, meth), [x, n])
    xm = zt(xs[1])
    nt = zt(n)
    if exp >= 0:
        Xv, Nv = xm << exp, nt
    else:
        Xv, Nv = xm, nt << (-exp)
    X = z3.If(zt(xs[0]) == B(1), -Xv, Xv) - Nv
    good = _want(fn, X)
    return finish(ob, ob.prove(outs, lambda v, st: good(v)))


def _cmp_float(p):
    from pysym.models import SFloat
    bc, exp, nbc, nneg, fn, fexp = p['bc'], p['exp'], p['nbc'], p['nneg'], p['fn'], p['fexp']
    lo = min(exp, fexp)
    top = max(bc + exp - lo, nbc + fexp - lo) + 2
    ob = Ob(wbump(p, top + 64), timeout_s=p.get('_t', 60))
    xs = ob.mpf('x', bc, exp=exp)
    na = ob.int('n_abs', 1 << (nbc - 1), (1 << nbc) - 1) if nbc > 1 else 1
    n = V.neg(na) if nneg else na
    mp = _ctx(53)
    x = mp.make_mpf(xs)
    meth = {'<': '__lt__', '<=': '__le__', '>': '__gt__', '>=': '__ge__', '==': '__eq__', '!=': '__ne__'}[fn]
    outs = ob.run(getattr(mp.mpf, meth), [x, SFloat(n, fexp)])
    Xv = zt(xs[1]) << (exp - lo)
    X = z3.If(zt(xs[0]) == B(1), -Xv, Xv) - (zt(n) << (fexp - lo))
    good = _want(fn, X)
    return finish(ob, ob.prove(outs, lambda v, st: good(v)))


def cmp_int_concrete(p, m):
    mp = _ctx(53)
    xs = mk_tuple(m, 'x', p['bc'], exp=p['exp'])
    na = m.get('n_abs', 1 if p['nbc'] == 1 else 0)
    n = -na if p['nneg'] else na
    if p.get('fexp') is not None:
        import math
        f = math.ldexp(n, p['fexp'])
        if Fraction(f) != Fraction(n) * Fraction(2) ** p['fexp']:
            return True, 'model value is not a double'
        r = PYOPS[p['fn']](mp.make_mpf(xs), f)
        want = PYOPS[p['fn']](O.frac_of(xs), Fraction(f))
        return r == want, 'mpf %r %s %r = %r, exact %r' % (xs, p['fn'], f, r, want)
    r = PYOPS[p['fn']](mp.make_mpf(xs), n)
    want = PYOPS[p['fn']](O.frac_of(xs), n)
    return r == want, 'mpf %r %s %r = %r, exact %r' % (xs, p['fn'], n, r, want)


def cmp_special(p):
    """comparisons with nan / inf / zero operands against IEEE semantics (nan unordered, unequal to itself)"""
    a, b, fn = p['a'], p['b'], p['fn']
    fsign = p.get('fsign', 0)
    ob = Ob(wbump(p, 9 + 64), timeout_s=p.get('_t', 60))
    fin = ob.mpf('x', 9, sign=fsign)
    A, Bv = SPECIALS.get(a, fin), SPECIALS.get(b, fin)
    L = libmpf()
    outs = ob.run(getattr(L, fn), [A, Bv])
    want = _cmp_special_want(a, b, fn, fsign)
    return finish(ob, ob.prove(outs, lambda v, st: (zb(v) == z3.BoolVal(want)) if isinstance(v, (SBool, SInt)) else (bool(v) == want and isinstance(v, bool))))


def _cmp_special_want(a, b, fn, fsign):
    fl = {'zero': 0.0, 'inf': float('inf'), 'ninf': float('-inf'), 'nan': float('nan'), 'fin': -1.5 if fsign else 1.5}
    return PYOPS[CMP_FUNCS[fn]](fl[a], fl[b])


def cmp_special_concrete(p, m):
    L = libmpf()
    fin = (p.get('fsign', 0), m.get('x_man', 257), m.get('x_exp', 0), 9)
    A, Bv = SPECIALS.get(p['a'], fin), SPECIALS.get(p['b'], fin)
    r = getattr(L, p['fn'])(A, Bv)
    want = _cmp_special_want(p['a'], p['b'], p['fn'], p.get('fsign', 0))
    return r == want, '%s(%r,%r) = %r want %r' % (p['fn'], A, Bv, r, want)


# ------------------------------------------------------------------------------ hashing
def _py_hash_post(h):
    """CPython's slot_tp_hash post-processing of a __hash__ result that fits Py_ssize_t: -1 -> -2"""
    return z3.If(h == B(-1), B(-2), h)


def hash_mpf(p):
    """hash(mpf) == CPython's numeric hash of the value  (= hash of the equal int / float)"""
    bc, exp = p['bc'], p['exp']
    ob = Ob(wbump(p, bc + abs(exp) + 140), timeout_s=p.get('_t', 60))
    x = ob.mpf('x', bc, exp=exp)
    L = libmpf()
    if p.get('entry', 'libmp') == 'libmp':
        outs = ob.run(L.mpf_hash, [x])
    else:
        mp = _ctx(53)
        outs = ob.run(mp.mpf.__hash__, [mp.make_mpf(x)])
    m = zt(x[1])
    PP = B(P)

    def good(val, st):
        h = _py_hash_post(zt(val))
        a = z3.If(h < 0, -h, h)
        if exp >= 0:
            spec = z3.URem(m << exp, PP) == a
        else:
            # a * 2^k == m (mod P), 0 <= a < P   (2 is invertible mod P: a is unique)
            spec = z3.URem(a << (-exp), PP) == z3.URem(m, PP)
        sign_ok = z3.If(a == B(0), h == B(0), (h < 0) == (zt(x[0]) == B(1)))
        normal = z3.And(h != B(-1), z3.ULT(a, PP), spec, sign_ok)
        return z3.Or(normal, z3.And(h == B(-2), minus_one_case(m, exp, zt(x[0]))))
    return finish(ob, ob.prove(outs, good))


def minus_one_case(m, exp, sign):
    """value hashes to -1 before post-processing: sign negative and magnitude hash 1"""
    PP = B(P)
    if exp >= 0:
        mag1 = z3.URem(m << exp, PP) == B(1)
    else:
        mag1 = z3.URem(B(1) << (-exp), PP) == z3.URem(m, PP)
    return z3.And(sign == B(1), mag1)


def _hash_value(fr):
    """CPython numeric hash of a Fraction, from the documented definition"""
    n, d = abs(fr.numerator), fr.denominator
    inv = pow(d, P - 2, P)
    if not inv:
        h = HASH_INF
    else:
        h = (n % P) * inv % P
    if fr < 0:
        h = -h
    return -2 if h == -1 else h


def hash_mpf_concrete(p, m):
    mp = _ctx(53)
    x = mk_tuple(m, 'x', p['bc'], exp=p['exp'])
    got = hash(mp.make_mpf(x))
    v = O.frac_of(x)
    want = _hash_value(v)
    ok = got == want
    if v.denominator == 1:
        ok = ok and got == hash(int(v))
    return ok, 'hash(mpf %r) = %r, numeric hash of the value is %r' % (x, got, want)


def hash_mpc(p):
    """hash(mpc(re, im)) == hash(complex) combination rule; im == 0 => equal to hash of the real part.
    Component hashes enter as what the real mpf_hash returns on symbolic operands (bc, exp per component)."""
    rbc, rexp, ibc, iexp = p['rbc'], p['rexp'], p['ibc'], p['iexp']
    ob = Ob(wbump(p, max(rbc + abs(rexp), ibc + abs(iexp)) + 160), timeout_s=p.get('_t', 60), mul_precise_bits=4096)
    re = ob.mpf('re', rbc, exp=rexp) if rbc else FZERO
    im = ob.mpf('im', ibc, exp=iexp) if ibc else FZERO
    from mpmath.libmp import libmpc
    L = libmpf()
    if p.get('entry', 'libmp') == 'libmp':
        outs = ob.run(libmpc.mpc_hash, [(re, im)])
    else:
        mp = _ctx(53)
        outs = ob.run(mp.mpc.__hash__, [mp.make_mpc((re, im))])
    # reference component hashes: CPython's _Py_HashDouble semantics (numeric hash, -1 -> -2), obtained by
    # running the real mpf_hash (verified separately by hash_mpf) and post-processing
    hre = ob.run(L.mpf_hash, [re])
    him = ob.run(L.mpf_hash, [im])
    if len(hre) != 1 or len(him) != 1:
        raise Unsupported('component hash not merged')
    hr = _py_hash_post(zt(hre[0][2]))
    hi = _py_hash_post(zt(him[0][2]))
    W = G.W
    comb = hr + B(HASH_IMAG) * hi
    low = z3.Extract(63, 0, comb)
    signed = z3.SignExt(W - 64, low)
    want = z3.If(signed == B(-1), B(-2), signed)

    def good(val, st):
        h = zt(val)
        # slot_tp_hash: a __hash__ result outside Py_ssize_t is replaced by hash(int) = sign * (|h| mod P)
        inrange = z3.And(h >= B(-(1 << 63)), h < B(1 << 63))
        big = z3.URem(z3.If(h < 0, -h, h), B(P))
        eff = z3.If(inrange, h, z3.If(h < 0, -big, big))
        eff = z3.If(eff == B(-1), B(-2), eff)
        return eff == want
    return finish(ob, ob.prove(outs, good))


def hash_mpc_concrete(p, m):
    mp = _ctx(53)
    re = mk_tuple(m, 're', p['rbc'], exp=p['rexp']) if p['rbc'] else FZERO
    im = mk_tuple(m, 'im', p['ibc'], exp=p['iexp']) if p['ibc'] else FZERO
    got = hash(mp.make_mpc((re, im)))
    hr, hi = _hash_value(O.frac_of(re)), _hash_value(O.frac_of(im))
    comb = (hr + HASH_IMAG * hi) % (1 << 64)
    if comb >= 1 << 63:
        comb -= 1 << 64
    want = -2 if comb == -1 else comb
    ok = got == want
    detail = 'hash(mpc(%r, %r)) = %r, hash(complex) rule gives %r' % (re, im, got, want)
    try:
        c = complex(float(O.frac_of(re)), float(O.frac_of(im)))
        if Fraction(c.real) == O.frac_of(re) and Fraction(c.imag) == O.frac_of(im):
            ok = ok and got == hash(c)
            detail += ', hash(%r) = %r' % (c, hash(c))
    except OverflowError:
        pass
    return ok, detail


# ------------------------------------------------------------------------------ pickling
def pickle_rt(p):
    """from_pickable(to_pickable(x)) == x for symbolic regular x and the special encodings (hex model)"""
    kind = p['kind']
    ob = Ob(wbump(p, p.get('bc', 9) + 64), timeout_s=p.get('_t', 60))
    x = ob.mpf('x', p['bc']) if kind == 'fin' else SPECIALS[kind]
    L = libmpf()
    entry = p.get('entry', 'libmp')
    if entry == 'libmp':
        mid = ob.run(L.to_pickable, [x])
        if len(mid) != 1 or mid[0][1] != 0:
            raise Unsupported('to_pickable forked')
        outs = ob.eng.call(mid[0][0], L.from_pickable, [mid[0][2]], {})
        get = lambda v, st: v
    elif entry in ('copy', 'deepcopy') and any(('__%s__' % entry) in k.__dict__ for k in _ctx(p.get('cprec', 53)).mpf.__mro__[:-1]):
        # the number type defines its own copy hook: it must reproduce the value exactly whatever the current precision is
        mp = _ctx(p.get('cprec', 53))
        xo = mp.make_mpf(x)
        hook = getattr(mp.mpf, '__%s__' % entry)
        outs = ob.run(hook, [xo] + ([{}] if entry == 'deepcopy' else []))

        def get(v, st):
            if type(v) is not mp.mpf:
                return None
            h = st.heap.get((id(v), '_mpf_'))
            return h[1] if h is not None else v._mpf_
    elif entry in ('mpf', 'copy', 'deepcopy'):
        # (copy / deepcopy without a hook of their own go through __reduce_ex__, i.e. through this state pair)
        mp = _ctx(p.get('cprec', 53))
        xo = mp.make_mpf(x)
        mid = ob.run(mp.mpf.__getstate__, [xo])
        if len(mid) != 1 or mid[0][1] != 0:
            raise Unsupported('getstate forked')
        new = object.__new__(mp.mpf)
        outs = ob.eng.call(mid[0][0], mp.mpf.__setstate__, [new, mid[0][2]], {})
        get = lambda v, st: st.heap[(id(new), '_mpf_')][1]
    else:
        mp = _ctx(53)
        y = ob.mpf('y', 5) if p.get('ikind', 'fin') == 'fin' else SPECIALS[p['ikind']]
        zo = mp.make_mpc((x, y))
        mid = ob.run(mp.mpc.__getstate__, [zo])
        if len(mid) != 1 or mid[0][1] != 0:
            raise Unsupported('getstate forked')
        new = object.__new__(mp.mpc)
        outs = ob.eng.call(mid[0][0], mp.mpc.__setstate__, [new, mid[0][2]], {})
        get = lambda v, st: st.heap[(id(new), '_mpc_')][1]

    def good(val, st):
        r = get(val, st)
        if entry == 'mpc':
            # both parts come back
            if not isinstance(r, tuple) or len(r) != 2 or any(not isinstance(q, tuple) or len(q) != 4 for q in r):
                return False
            return z3.And([zt(a) == zt(b) for q, w in zip(r, (x, y)) for a, b in zip(q, w)])
        if not isinstance(r, tuple) or len(r) != 4:
            return False
        return z3.And([zt(a) == zt(b) for a, b in zip(r, x)])
    return finish(ob, ob.prove(outs, good))


def pickle_rt_concrete(p, m):
    import pickle
    import copy
    mp = _ctx(53)
    x = mk_tuple(m, 'x', p['bc']) if p['kind'] == 'fin' else SPECIALS[p['kind']]
    L = libmpf()
    r = L.from_pickable(L.to_pickable(x))
    if tuple(r) != tuple(x):
        return False, 'from_pickable(to_pickable(%r)) = %r' % (x, r)
    xo = mp.make_mpf(x)
    for proto in range(0, pickle.HIGHEST_PROTOCOL + 1):
        y = pickle.loads(pickle.dumps(xo, proto))
        if y._mpf_ != x or type(y) is not type(xo):
            return False, 'pickle protocol %d: %r -> %r' % (proto, x, y._mpf_)
    if p.get('entry') == 'mpc':
        yv = mk_tuple(m, 'y', 5) if p.get('ikind', 'fin') == 'fin' else SPECIALS[p['ikind']]
        zo = mp.make_mpc((x, yv))
        for proto in range(0, pickle.HIGHEST_PROTOCOL + 1):
            w = pickle.loads(pickle.dumps(zo, proto))
            if w._mpc_ != (x, yv) or type(w) is not type(zo):
                return False, 'pickle protocol %d of an mpc: %r -> %r' % (proto, (x, yv), w._mpc_)
    mp.prec = p.get('cprec', 53)
    try:
        for nm, f in (('copy.copy', copy.copy), ('copy.deepcopy', copy.deepcopy)):
            y = f(xo)
            if y._mpf_ != x or type(y) is not type(xo):
                return False, '%s at mp.prec = %d: %r -> %r' % (nm, mp.prec, x, y._mpf_)
            z = f(mp.make_mpc((x, x)))
            if z._mpc_ != (x, x):
                return False, '%s of an mpc at mp.prec = %d: %r -> %r' % (nm, mp.prec, x, z._mpc_)
    finally:
        mp.prec = 53
    return True, ''


# ------------------------------------------------------------------------------ conversions of special values have one encoding
def special_encoding(p):
    """constructors fed with a zero / infinity / nan in any spelling (Decimal('-0'), '-0.0', -0.0, '0e5', '+inf' ...) store the
    one canonical encoding of that value.  Concrete inputs run through the interpreter (no symbolic content: this is the table of
    special encodings, as for the arithmetic special-value tables)."""
    import decimal
    L = libmpf()
    ob = Ob(80)
    src, text, kind = p['src'], p['text'], p['kind']
    want = {'zero': FZERO, 'inf': FINF, 'ninf': FNINF, 'nan': FNAN}[kind]
    if src == 'Decimal':
        outs = ob.run(L.from_Decimal, [decimal.Decimal(text), 53, 'n'])
    elif src == 'str':
        outs = ob.run(L.from_str, [text, 53, 'n'])
    elif src == 'float':
        outs = ob.run(L.from_float, [float(text)])
    elif src == 'convert':
        mp = _ctx(53)
        outs = ob.run(mp.convert, [decimal.Decimal(text)])
        cls = mp.mpf

        def good(v, st):
            if not isinstance(v, cls):
                return False
            h = st.heap.get((id(v), '_mpf_'))
            return tuple(h[1] if h is not None else v._mpf_) == want
        return finish(ob, ob.prove(outs, good))
    else:
        raise Unsupported(src)
    return finish(ob, ob.prove(outs, lambda v, st: isinstance(v, tuple) and tuple(v) == want))


def special_encoding_concrete(p, m):
    import decimal
    L = libmpf()
    src, text, kind = p['src'], p['text'], p['kind']
    want = {'zero': FZERO, 'inf': FINF, 'ninf': FNINF, 'nan': FNAN}[kind]
    if src == 'Decimal':
        r = L.from_Decimal(decimal.Decimal(text), 53, 'n')
    elif src == 'str':
        r = L.from_str(text, 53, 'n')
    elif src == 'float':
        r = L.from_float(float(text))
    else:
        mp = _ctx(53)
        r = mp.convert(decimal.Decimal(text))._mpf_
    return tuple(r) == want, '%s(%r) is stored as %r, the canonical encoding is %r' % (src, text, tuple(r), want)
