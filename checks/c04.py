"""C04 -- complex arithmetic is correctly rounded per component."""
from vlib.oracle import RNDS
from checks import c02 as _c02

PROPERTY = 'C04'
LEVEL = 'other'
FM = 'checks.fam_mpc:'
EXPLANATION = (
    "Bounded symbolic verification.  mpc_add, mpc_sub, mpc_add_mpf, mpc_sub_mpf, mpc_mul, mpc_mul_mpf, mpc_mul_int, mpc_square, "
    "mpc_pos, mpc_neg, mpc_conjugate and the routes through the mpc/mpf operators (complex op complex, complex op real, real op "
    "complex) and fadd/fsub/fmul with prec=/rounding= (both argument orders) are executed symbolically from /repo's source; the "
    "kernels inline the mpf_* code.  Per shape (component bit lengths incl. exact-zero components and mantissas longer than the "
    "precision, relative exponents of the four components, precision, rounding mode) the solver decides, separately for the real "
    "and the imaginary part, that the returned component is the canonical correctly rounded value of the exact component -- for "
    "products the component a*c - b*d is built from the same four product terms (precise bit-vector products for small shapes, "
    "shared uninterpreted product terms for wide ones), so no nonlinear reasoning is required of the solver.  mpc equality against "
    "mpc, mpf, Python int, float and complex operands is compared with exact componentwise equality.  mpc_pow_int / z**n for n >= 0 "
    "on its exact path (complex_int_pow on the aligned integer mantissas, then one rounding per part) is compared with the exact "
    "power built by repeated bit-vector multiplication.  Division/reciprocal/negative powers (a few-ulp bound, not correct "
    "rounding) are checked on small shapes only in the form |q*w - z| <= 4 * 2**-prec * |z| (exact integers, cross-multiplied), which "
    "catches a wrong formula or sign but not a loss of a few guard bits."
)
TRUSTED = _c02.TRUSTED
ASSUMPTIONS = _c02.ASSUMPTIONS + ["relative exponents of the components are concrete per obligation (grid); one base exponent per operand symbolic in +-2^30"]
BUDGET = {'quick': dict(ob_deadline_s=120, total_s=300), 'thorough': dict(ob_deadline_s=600, total_s=1500)}
BOUNDS = {'quick': 'component mantissas 1..9 bits (products: 3..5 bits precise, 20x20 abstract), component offsets -3..3, precisions 2..8, all five modes; z**n for n <= 5 with 2..5-bit components',
          'thorough': 'components up to 53 bits with abstract products, larger offsets'}


def obligations(tier, seed=0):
    obs = []
    thorough = tier == 'thorough'

    def add(fam, **kw):
        if thorough:
            kw['_t'] = 600
        obs.append((FM + fam, kw))
    Z1 = dict(zbc=[4, 5], wbc=[5, 3], zoff=2, woff=-1, off=1)
    Z2 = dict(zbc=[9, 2], wbc=[3, 9], zoff=-3, woff=2, off=-2)
    Z3 = dict(zbc=[5, 0], wbc=[4, 6], zoff=0, woff=1, off=0)      # z purely real stored as mpc
    Z4 = dict(zbc=[0, 7], wbc=[6, 0], zoff=0, woff=0, off=2)
    for Z in (Z1, Z2, Z3, Z4):
        for fn in ('mpc_add', 'mpc_sub', 'mpc_add_mpf', 'mpc_sub_mpf'):
            for rnd in RNDS:
                add('caddsub', prec=3, rnd=rnd, fn=fn, **Z)
        for fn in ('mpc_add', 'mpc_sub', 'mpc_add_mpf', 'mpc_sub_mpf'):
            add('caddsub', prec=3, rnd='n', fn=fn, entry='op', **Z)
            for rnd in 'nfcu':
                add('caddsub', prec=3, rnd=rnd, fn=fn, entry='f', **Z)
        for fn in ('mpc_add_mpf', 'mpc_sub_mpf'):
            add('caddsub', prec=3, rnd='n', fn=fn, entry='rop', **Z)
            for rnd in 'nfcd':
                add('caddsub', prec=3, rnd=rnd, fn=fn, entry='rf', **Z)
    add('caddsub', prec=8, rnd='n', fn='mpc_add', **Z1)
    M1 = dict(zbc=[3, 4], wbc=[4, 3], zoff=1, woff=-2)
    M2 = dict(zbc=[5, 2], wbc=[1, 4], zoff=-2, woff=1)
    M3 = dict(zbc=[4, 0], wbc=[3, 3], zoff=0, woff=0)
    for M in (M1, M2, M3):
        for fn in ('mpc_mul', 'mpc_mul_mpf', 'mpc_square'):
            for rnd in RNDS:
                add('cmul', prec=3, rnd=rnd, fn=fn, **M)
        add('cmul', prec=8, rnd='n', fn='mpc_mul', **M)
        add('cmul', prec=3, rnd='n', fn='mpc_mul', entry='op', **M)
        add('cmul', prec=3, rnd='n', fn='mpc_mul_mpf', entry='op', **M)
        add('cmul', prec=3, rnd='n', fn='mpc_mul_mpf', entry='rop', **M)
        for rnd in 'nfc':
            add('cmul', prec=3, rnd=rnd, fn='mpc_mul', entry='f', **M)
    add('cmul', prec=10, rnd='n', fn='mpc_mul', zbc=[20, 20], wbc=[20, 20], zoff=1, woff=-2)
    for rnd in RNDS:
        for nneg in (0, 1):
            add('cmul_int', zbc=[5, 4], zoff=1, nbc=3, nneg=nneg, prec=3, rnd=rnd)
        add('cmul_int', zbc=[6, 0], zoff=0, nbc=1, nneg=1, prec=3, rnd=rnd)
    for fn in ('mpc_pos', 'mpc_neg', 'mpc_conjugate'):
        for rnd in RNDS:
            add('cunary', zbc=[5, 6], zoff=1, prec=3, rnd=rnd, fn=fn)
            add('cunary', zbc=[2, 9], zoff=-2, prec=4, rnd=rnd, fn=fn)
        add('cunary', zbc=[5, 6], zoff=1, prec=3, rnd='n', fn=fn, entry='op')
    for Z in (dict(zbc=[3, 3], wbc=[3, 3], zoff=0, woff=0, off=0), dict(zbc=[3, 2], wbc=[3, 2], zoff=1, woff=1, off=0), dict(zbc=[3, 3], wbc=[4, 3], zoff=0, woff=0, off=-1)):
        for fn in ('__eq__', '__ne__'):
            add('ceq', fn=fn, **Z)
    for zbc in ([3, 0], [3, 2]):
        for fn in ('__eq__', '__ne__'):
            add('ceq', fn=fn, rhs='mpf', zbc=zbc, wbc=[3, 3], zoff=0, woff=0, off=0)
    # seeded random shapes (deterministic for a given VERIF_SEED)
    import random
    rng = random.Random(3000 + int(seed or 0))
    for _ in range(16 if not thorough else 60):
        rnd = rng.choice(RNDS)
        def bcs(hi, zero_ok=True):
            a, b = rng.randint(0 if zero_ok else 1, hi), rng.randint(0 if zero_ok else 1, hi)
            return [a, b] if (a or b) else [1, b]
        add('caddsub', prec=rng.choice([1, 2, 3, 5]), rnd=rnd, fn=rng.choice(['mpc_add', 'mpc_sub']), zbc=bcs(9), wbc=bcs(9), zoff=rng.randint(-4, 4),
            woff=rng.randint(-4, 4), off=rng.randint(-3, 3))
        add('cmul', prec=rng.choice([1, 2, 3, 4]), rnd=rnd, fn='mpc_mul', zbc=bcs(5), wbc=bcs(5), zoff=rng.randint(-3, 3), woff=rng.randint(-3, 3))
        add('cmul', prec=rng.choice([1, 2, 3, 4]), rnd=rnd, fn='mpc_square', zbc=bcs(6, False), wbc=[1, 1], zoff=rng.randint(-3, 3), woff=0)
    # equality against Python int / float / complex
    for fn in ('__eq__', '__ne__'):
        add('ceq', fn=fn, rhs='int', zbc=[3, 0], wbc=[3, 0], zoff=0, woff=0, off=0)
        add('ceq', fn=fn, rhs='int', zbc=[3, 2], wbc=[4, 0], zoff=0, woff=0, off=-1)
        add('ceq', fn=fn, rhs='int', zbc=[3, 0], wbc=[5, 0], zoff=0, woff=0, off=2)
        add('ceq', fn=fn, rhs='float', zbc=[3, 0], wbc=[3, 0], zoff=0, woff=0, off=0, wexp=-2, wneg=[1, 0])
        add('ceq', fn=fn, rhs='float', zbc=[4, 1], wbc=[4, 0], zoff=-3, woff=0, off=0, wexp=5)
        add('ceq', fn=fn, rhs='complex', zbc=[3, 2], wbc=[3, 2], zoff=1, woff=1, off=0, wexp=-2, wneg=[1, 0])
        add('ceq', fn=fn, rhs='complex', zbc=[3, 2], wbc=[3, 0], zoff=1, woff=1, off=0, wexp=3)
        add('ceq', fn=fn, rhs='complex', zbc=[3, 3], wbc=[4, 3], zoff=0, woff=0, off=-1, wexp=0, wneg=[0, 1])
    # squares whose a+b / a-b do not fit in prec+10 bits and with enough free mantissa bits for near-ties to exist (a rewrite of
    # a^2-b^2 as (a+b)(a-b) with rounded factors double-rounds; 7-bit components have no such near-tie, 10-bit ones do)
    for rnd in RNDS:
        add('cmul', prec=1, rnd=rnd, fn='mpc_square', zbc=[10, 10], wbc=[10, 10], zoff=12, woff=12, precise=True)
        add('cmul', prec=2, rnd=rnd, fn='mpc_square', zbc=[11, 9], wbc=[11, 9], zoff=-13, woff=-13, precise=True)
        add('cpow_int', zbc=[10, 10], zoff=12, n=2, prec=1, rnd=rnd)
    add('cpow_int', zbc=[10, 10], zoff=12, n=2, prec=1, rnd='n', entry='op')
    # one operand purely real or purely imaginary (stored as mpc), every mode: a shortcut through a real-multiplication helper
    # must still round the *signed* component in the requested direction
    for rnd in RNDS:
        for zb, wb in (([4, 5], [0, 4]), ([4, 5], [4, 0]), ([0, 5], [4, 3]), ([5, 0], [3, 4]), ([0, 4], [0, 5])):
            add('cmul', prec=3, rnd=rnd, fn='mpc_mul', zbc=zb, wbc=wb, zoff=1, woff=0)
        add('cmul', prec=3, rnd=rnd, fn='mpc_mul', zbc=[4, 5], wbc=[0, 4], zoff=1, woff=0, entry='f')
    # division, reciprocal, real / complex: |q*w - z| <= 4 * 2**-prec * |z| (a few ulps in modulus); complex / real: correctly rounded
    add('cdiv', fn='mpc_div', zbc=[3, 2], wbc=[2, 3], zoff=-1, woff=0, prec=3, rnd='n', _t=110)
    add('cdiv', fn='mpc_div', zbc=[2, 2], wbc=[3, 2], zoff=1, woff=-1, prec=3, rnd='f', _t=110)
    add('cdiv', fn='mpc_div', zbc=[3, 2], wbc=[2, 3], zoff=-1, woff=0, prec=3, rnd='n', entry='op', _t=110)
    add('cdiv', fn='mpc_reciprocal', zbc=[1, 1], wbc=[4, 3], zoff=0, woff=-1, prec=4, rnd='f', _t=110)
    add('cdiv', fn='mpc_reciprocal', zbc=[1, 1], wbc=[3, 4], zoff=0, woff=2, prec=4, rnd='n', _t=110)
    add('cdiv', fn='mpc_mpf_div', zbc=[3, 1], wbc=[3, 3], zoff=0, woff=0, prec=3, rnd='n', _t=110)
    if thorough:
        for rnd in RNDS:
            add('cdiv', fn='mpc_div', zbc=[3, 3], wbc=[3, 2], zoff=0, woff=1, prec=4, rnd=rnd)
            add('cdiv', fn='mpc_div', zbc=[4, 3], wbc=[3, 4], zoff=-2, woff=1, prec=5, rnd=rnd)
            add('cdiv', fn='mpc_reciprocal', zbc=[1, 1], wbc=[5, 5], zoff=0, woff=0, prec=6, rnd=rnd)
            add('cdiv', fn='mpc_mpf_div', zbc=[4, 1], wbc=[4, 4], zoff=0, woff=1, prec=5, rnd=rnd)
    # z ** n, n >= 0, exact path (exact size < 10000 bits): each part correctly rounded
    for zbc, zoff, n, prec in [([3, 3], 0, 3, 4), ([3, 2], 1, 4, 5), ([2, 3], -2, 5, 6), ([4, 4], 0, 2, 3), ([5, 3], 2, 1, 2), ([3, 3], 0, 0, 4)]:
        for rnd in RNDS:
            add('cpow_int', zbc=zbc, zoff=zoff, n=n, prec=prec, rnd=rnd)
    for n in (2, 3, 4, 5):
        add('cpow_int', zbc=[0, 4], zoff=0, n=n, prec=3, rnd='n')      # purely imaginary base: the i**n rotation branch
        add('cpow_int', zbc=[4, 0], zoff=0, n=n, prec=3, rnd='n')
    for n in (0, 1, 2, 3):
        add('cpow_int', zbc=[2, 3], zoff=-2, n=n, prec=6, rnd='n', entry='op')
    if thorough:
        for rnd in RNDS:
            add('cpow_int', zbc=[5, 5], zoff=1, n=6, prec=8, rnd=rnd)
            add('cpow_int', zbc=[8, 8], zoff=-3, n=3, prec=10, rnd=rnd)
            add('cpow_int', zbc=[3, 3], zoff=0, n=9, prec=12, rnd=rnd)
    if thorough:
        for rnd in RNDS:
            add('cmul', prec=6, rnd=rnd, fn='mpc_mul', zbc=[8, 9], wbc=[9, 7], zoff=3, woff=-2)
            add('cmul', prec=24, rnd=rnd, fn='mpc_mul', zbc=[24, 24], wbc=[24, 24], zoff=0, woff=0)
            add('cmul', prec=53, rnd=rnd, fn='mpc_mul', zbc=[53, 53], wbc=[53, 53], zoff=0, woff=0)
            add('caddsub', prec=24, rnd=rnd, fn='mpc_add', zbc=[24, 30], wbc=[30, 24], zoff=5, woff=-3, off=2)
            add('caddsub', prec=53, rnd=rnd, fn='mpc_sub_mpf', zbc=[53, 81], wbc=[53, 1], zoff=0, woff=0, off=0)
    return obs
