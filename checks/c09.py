"""C09 -- conversion to and from machine floats is exact or correctly rounded."""
from vlib.oracle import RNDS
from checks import c02 as _c02

PROPERTY = 'C09'
LEVEL = 'other'
FF = 'checks.fam_float:'
EXPLANATION = (
    "Bounded symbolic verification on a dyadic model of Python floats.  A finite double is modelled as an exact value M*2^E "
    "(|M| < 2^53, M symbolic, E symbolic over the whole double range incl. subnormals via shorter M); math.frexp, scaling by a "
    "power of two, int() and math.ldexp (exact in the normal range, OverflowError at 2^1024) are exact on the model.  from_float "
    "and mpf(float) are executed symbolically from /repo's source and must return the canonical tuple of exactly M*2^E (or its "
    "correct rounding when a smaller precision is requested); the five special doubles are run concretely through the "
    "interpreter.  to_float / float(x) / complex(z): for mantissas of 1..300 bits and the exponent symbolic over windows that "
    "cover the normal range up to and beyond 2^1024, the solver decides that the returned double is the round-half-even 53-bit "
    "value of x (signed comparison against the reference rounding) and that +-inf is returned exactly when that rounded value "
    "reaches 2^1024.  Results in the subnormal range are outside the model and the claim (the property states 'normal double "
    "range')."
)
TRUSTED = _c02.TRUSTED + ["dyadic float model: frexp/ldexp/int()/power-of-two scaling of CPython floats are exact as documented (IEEE-754 binary64)"]
ASSUMPTIONS = ["operand sign is concrete per obligation for to_float (both signs enumerated)", "results below 2^-1022 (subnormal) are excluded by precondition"]
BUDGET = {'quick': dict(ob_deadline_s=100, total_s=150), 'thorough': dict(ob_deadline_s=600, total_s=1500)}
BOUNDS = {'quick': 'double mantissas of 1,2,20,52,53 bits, all exponents; mpf mantissas 1..100 bits and 300 bits, exponents over the full normal range and beyond overflow'}


def obligations(tier, seed=0):
    obs = []

    def add(fam, **kw):
        obs.append((FF + fam, kw))
    for mb in (1, 2, 20, 52, 53):
        for neg in (0, 1):
            add('from_float', mbits=mb, neg=neg)
    for rnd in RNDS:
        add('from_float', mbits=53, prec=24, rnd=rnd)
        add('from_float', mbits=53, prec=1, rnd=rnd, neg=1)
    for prec in (10, 53, 60):
        add('from_float', mbits=53, prec=prec, entry='ctor')
        add('from_float', mbits=30, prec=prec, entry='ctor', neg=1)
    for k in ('inf', 'ninf', 'nan', 'zero', 'nzero'):
        add('from_float_special', kind=k)
    bcs = [1, 2, 5, 52, 53, 54, 55, 56, 64, 65, 66, 70, 100, 107]
    if tier == 'thorough':
        bcs += [57, 58, 60, 63, 80, 128, 200, 300, 1000]
    else:
        bcs += [300]
    for bc in bcs:
        for sign in (0, 1):
            add('to_float', bc=bc, elo=-1021 - bc, ehi=1030 - bc, sign=sign)          # whole normal range (from 2^-1022) and overflow
            add('to_float', bc=bc, elo=1000 - bc, ehi=1030 - bc, sign=sign, entry='float')
    for rnd in 'fcdu':
        add('to_float', bc=60, elo=-100, ehi=100, rnd=rnd, sign=0)
        add('to_float', bc=60, elo=-100, ehi=100, rnd=rnd, sign=1)
    for bc in (5, 53, 60, 70, 120):
        for rs in (0, 1):
            add('to_complex', bc=bc, rsign=rs, isign=1 - rs)
    # components are converted independently: exact zeros, inf/nan, and values around the overflow threshold in either slot
    kinds = ('fin', 'zero', 'inf', 'ninf', 'nan', 'huge')
    for rk in kinds:
        for ik in kinds:
            if (rk, ik) == ('fin', 'fin'):
                continue
            for sg in (0, 1):
                if sg and rk != 'huge' and ik != 'huge' and rk != 'fin' and ik != 'fin':
                    continue
                add('to_complex', bc=60, rkind=rk, ikind=ik, rsign=sg, isign=sg)
    return obs
