"""C15 -- complex interval operations contain every possible exact result (algebraic core)."""
from checks import c02 as _c02
from checks.c14 import P, N, Z, sign_patterns

PROPERTY = 'C15'
LEVEL = 'other'
FI = 'checks.fam_iv:'
EXPLANATION = (
    "Bounded symbolic verification of mpci_add, mpci_sub, mpci_neg, mpci_pos, mpci_mul, mpci_square and the iv.mpc operators "
    "+ - * and unary - + executed from /repo's source (they compose the real-interval routines verified under C14).  Rectangle "
    "endpoint kinds, bit lengths and relative exponents are concrete per obligation, mantissas and the base exponent symbolic, "
    "lower <= upper assumed per side.  For every corner of the operand rectangles (all 16 for a product; squares additionally "
    "at the interior extremum 0) the solver decides that the exact real part lies in the returned real interval and the exact "
    "imaginary part in the returned imaginary interval (precise bit-vector products, exact comparison at a common scale), that no "
    "endpoint is nan and every endpoint is canonical with at most prec bits.  Division, powers with large exponents and the "
    "transcendental functions (exp, log, cos, sin, gamma ...) are outside this check: they need facts about rectangles under "
    "analytic functions that no bounded encoding expresses."
)
TRUSTED = _c02.TRUSTED + ["corner lemma: a multilinear form over a box attains its extremes at corners; a^2 - b^2 additionally at a = 0 / b = 0 when the side straddles zero"]
ASSUMPTIONS = ["rectangle sides satisfy lower <= upper", "finite endpoints; small shapes with precise products"]
BUDGET = {'quick': dict(ob_deadline_s=150, total_s=170), 'thorough': dict(ob_deadline_s=600, total_s=1500)}
BOUNDS = {'thorough': 'quick + every sign pattern of the four parts for products/squares at 3..4-bit endpoints, 7..9-bit endpoints for sums at prec 5', 'quick': 'endpoint mantissas 1..6 bits (+ - neg pos), 2..3 bits (* and square), prec 2..3, several sign patterns per side'}


def obligations(tier, seed=0):
    obs = []
    thorough = tier == 'thorough'

    def add(**kw):
        if thorough:
            kw['_t'] = 600
        obs.append((FI + 'ivc_arith', kw))
    S = sign_patterns(4, 5, 0, 1)
    T = sign_patterns(3, 6, 1, -1)
    rects = [[S[0], T[2]], [S[2], T[1]], [S[1], T[0]], [S[3], T[4]], [S[2], S[2]]]
    for fn in ('mpci_add', 'mpci_sub'):
        for x in rects:
            for y in rects[:3]:
                add(fn=fn, prec=3, x=x, y=y)
        add(fn=fn, prec=3, x=rects[0], y=rects[1], entry='op')
    for fn in ('mpci_neg', 'mpci_pos'):
        for x in rects:
            add(fn=fn, prec=3, x=x)
        add(fn=fn, prec=3, x=rects[1], entry='op')
    S2 = sign_patterns(2, 3, 0, 0)
    T2 = sign_patterns(2, 2, 0, 1)
    small = [[S2[0], T2[2]], [S2[2], T2[1]], [S2[1], T2[0]], [S2[2], T2[2]]]
    for x in small:
        add(fn='mpci_square', prec=2, x=x)
        for y in small[:2] if not thorough else small:
            add(fn='mpci_mul', prec=2, x=x, y=y)
    add(fn='mpci_mul', prec=2, x=small[0], y=small[1], entry='op')
    if thorough:
        # every sign pattern of both parts of both operands at small sizes, and larger endpoints
        S3 = sign_patterns(3, 4, 0, 1)
        T3 = sign_patterns(2, 3, 0, 1)
        allr = [[a, b] for a in S3 for b in T3]
        for x in allr[::2]:
            add(fn='mpci_square', prec=3, x=x)
            for y in allr[1::7]:
                add(fn='mpci_mul', prec=3, x=x, y=y)
        big = [[sign_patterns(7, 8, 0, 2)[i], sign_patterns(6, 9, -2, 1)[j]] for i, j in ((0, 2), (2, 1), (1, 0), (2, 2))]
        for fn in ('mpci_add', 'mpci_sub'):
            for x in big:
                for y in big:
                    add(fn=fn, prec=5, x=x, y=y)
    return obs
