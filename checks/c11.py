"""C11 -- working precision is restored after every call, normal or failing."""
import inspect
import types

PROPERTY = 'C11'
LEVEL = 'other'
ENGINE = 'pysym-abstract'
FP = 'checks.fam_prec:'
TECHNIQUE = ('abstract symbolic execution of the Python source (pysym, Unknown values + symbolic precision state) with an SMT query (z3, QF_UFBV) '
             'per exit; counterexamples confirmed dynamically on the real code (docstring examples, failing callbacks, injected internal faults)')
EXPLANATION = (
    "Per public entry point of the mp (and iv) context: the entry point's real source is executed by pysym in abstract mode -- "
    "every argument is an Unknown, every branch on an Unknown is explored both ways, every call to code that does not write the "
    "precision state is a stub that either returns an Unknown or RAISES (a fresh Boolean per call site = the 'any callback or "
    "internal computation may fail at any point' quantifier), callees that write the precision state (AST scan of /repo at run "
    "time) are inlined, loops are explored 0..2 times.  The only symbolic integers are ctx._prec, ctx._dps and "
    "ctx._prec_rounding[0] with an ARBITRARY entry value P0 (and D0 = prec_to_dps(P0), the invariant both setters establish; "
    "prec_to_dps/dps_to_prec are uninterpreted functions constrained only by prec_to_dps(dps_to_prec(d)) = d).  At every exit, "
    "normal or exceptional, z3 must prove that the three slots equal their entry values; a restore through dps (which is lossy: "
    "dps_to_prec(prec_to_dps(p)) != p in general) or outside try/finally is found as a satisfiable query.  Callables returned by "
    "an entry point (e.g. odefun's solution) are entered again from a fresh arbitrary precision.  workprec/workdps/extraprec/"
    "extradps are checked both as context managers around a raising body and as decorators.  A satisfiable query is confirmed "
    "on the real code by running the entry point's own docstring examples from entry precisions that are not the image of a dps, "
    "plain, with callbacks that raise, and with a fault injected at the k-th internal call; only a reproduced failure is reported "
    "as VIOLATION, an unreproduced abstract alarm is listed as inconclusive."
)
TRUSTED = ["z3 (QF_UFBV)", "pysym abstract mode: Unknown joins, lenient evaluation of unsupported expressions to 'Unknown that may raise' (never for statements that write precision)",
           "inductive hypothesis: callees that do not themselves write the precision state, and user callbacks, are precision-preserving",
           "standard model of IEEE double arithmetic (relative error 2^-53 per operation) for the lemma prec_to_dps(dps_to_prec(d)) == d, 1 <= d <= 2^20, which is discharged by z3 (QF_LIRA) in the lemma_roundtrip obligation; the setters' invariant is discharged by the setters obligations",
           "loops explored 0..2 iterations (precision state must be loop-invariant beyond that)"]
ASSUMPTIONS = ["crash points are call boundaries (an exception raised between two bytecodes, e.g. KeyboardInterrupt, is outside)",
               "deliberate setters (prec/dps properties, default, clone, context-manager __enter__) are exempt"]
BUDGET = {'quick': dict(ob_deadline_s=45, total_s=260), 'thorough': dict(ob_deadline_s=300, total_s=1800)}
BOUNDS = {'quick': 'every public callable of mp (not starting with _) whose source is retrievable, and every public callable of iv whose own body writes the precision (thorough: all of iv); inlining depth <= 8 for precision-writing callees; loops <= 2 iterations; entry precision 1..2^20'}

EXEMPT = {'default', 'clone', 'mpf', 'mpc', 'matrix', 'constant', 'mpi', 'mpq', 'context', 'iv', 'fp', 'mp', 'NoConvergence', 'ComplexResult', 'runtests', 'doctests',
          'plot', 'cplot', 'splot', 'pretty', 'trap_complex', 'verbose'}
MANAGERS = ('workprec', 'workdps', 'extraprec', 'extradps')


def entry_points(ctx_name='mp'):
    import mpmath
    ctx = getattr(mpmath, ctx_name)
    out = []
    for n in sorted(dir(ctx)):
        if n.startswith('_') or n in EXEMPT:
            continue
        try:
            v = getattr(ctx, n)
        except Exception:
            continue
        if isinstance(v, type) or not callable(v):
            continue
        f = getattr(v, '__func__', v)
        if not isinstance(f, types.FunctionType):
            continue
        out.append(n)
    return out


# entry points known to be slow to explore abstractly are given to the thorough tier only
def obligations(tier, seed=0):
    obs = [(FP + 'lemma_roundtrip', {})]
    for kind in ('mp', 'iv'):
        for which in ('prec', 'dps'):
            obs.append((FP + 'setters', dict(ctx=kind, which=which)))
    for m in MANAGERS:
        obs.append((FP + 'restore', dict(ctx='mp', name=m, mode='with')))
        obs.append((FP + 'restore', dict(ctx='mp', name=m, mode='decorated')))
        obs.append((FP + 'restore', dict(ctx='mp', name=m, mode='reentrant')))
    import mpmath
    from checks.fam_prec import touches
    names = [n for n in entry_points('mp') if n not in MANAGERS]

    def prio(n):
        f = getattr(getattr(mpmath.mp, n), '__func__', getattr(mpmath.mp, n))
        if touches(f):
            return 0
        if f.__name__ == 'f_wrapped':
            inner = [c.cell_contents for c in (f.__closure__ or ()) if callable(getattr(c, 'cell_contents', None))]
            return 1 if any(touches(i) for i in inner if hasattr(i, '__code__')) else 2
        return 3
    names.sort(key=lambda n: (prio(n), n))
    for n in names:
        p = dict(ctx='mp', name=n)
        if tier == 'thorough':
            p['_t'] = 120
        obs.append((FP + 'restore', p))
    # fp has no precision state of its own, but its entry points share their source with mp's and some delegate to the global
    # mp context (ctx._mp): entered with ctx = fp, the watched slots are mp's -- an fp computation must leave mp's precision
    # alone (cf. C38).  Quick tier: entry points whose own body writes the precision; thorough: all.
    from checks.fam_prec import writers
    import ast as _ast
    from pysym import srcmap as _srcmap
    helper_names = {qn.split('.')[-1] for _, qn, _ in writers()}

    def calls_helper(f):
        try:
            node, _ = _srcmap.lookup(f)
        except Exception:
            return False
        for x in _ast.walk(node):
            if isinstance(x, _ast.Call):
                nm = getattr(x.func, 'id', getattr(x.func, 'attr', None))
                if nm in helper_names:
                    return True
        return False
    for n in entry_points('fp'):
        f = getattr(getattr(mpmath.fp, n), '__func__', getattr(mpmath.fp, n))
        if tier == 'thorough' or touches(f) or calls_helper(f):
            p = dict(ctx='fp', name=n)
            if tier == 'thorough':
                p['_t'] = 120
            obs.append((FP + 'restore', p))
    # the interval context has its own precision slots (iv._prec[0], iv._dps) and setters; most entry points share their
    # source with mp's.  Quick tier: those whose own body writes the precision; thorough tier: all of them.
    for n in entry_points('iv'):
        f = getattr(getattr(mpmath.iv, n), '__func__', getattr(mpmath.iv, n))
        if tier == 'thorough' or touches(f):
            p = dict(ctx='iv', name=n)
            if tier == 'thorough':
                p['_t'] = 120
            obs.append((FP + 'restore', p))
    return obs
