"""C37 (partial): the in-tree twins of the pure-Python and the gmpy code paths are equivalent on symbolic inputs, and the
pure-Python bit-twiddling primitives meet the contracts of their GMP counterparts (bit length, trailing zeros)."""
import z3

from pysym import values as V
from pysym.values import G, SInt, SBool, bvv, zt, zb, Unsupported
from vlib.ob import Ob, add
from vlib import oracle as O
from vlib.oracle import B, canonical, is_tuple
from checks.fam_arith import finish, wbump, mk_tuple, libmpf, FALSE, TRUE, E30


def twin_mul(p):
    """python_mpf_mul == gmpy_mpf_mul / python_mpf_mul_int == gmpy_mpf_mul_int on the same symbolic operands"""
    kind, sbc, tbc, prec, rnd = p['kind'], p['sbc'], p['tbc'], p['prec'], p['rnd']
    L = libmpf()
    precise = sbc + tbc <= 24
    ob = Ob(wbump(p, sbc + tbc + 60), timeout_s=p.get('_t', 60), mul_precise_bits=(64 if precise else 0))
    s = ob.mpf('s', sbc)
    if kind == 'mul':
        t = ob.mpf('t', tbc)
        a = ob.run(L.python_mpf_mul, [s, t, prec, rnd])
        b = ob.run(L.gmpy_mpf_mul, [s, t, prec, rnd])
    else:
        na = ob.int('n_abs', 1 << (tbc - 1), (1 << tbc) - 1) if tbc > 1 else 1
        n = V.neg(na) if p.get('nneg') else na
        a = ob.run(L.python_mpf_mul_int, [s, n, prec, rnd])
        b = ob.run(L.gmpy_mpf_mul_int, [s, n, prec, rnd])
    if len(a) != 1 or len(b) != 1 or a[0][1] != 0 or b[0][1] != 0:
        raise Unsupported('twin produced several outcomes')
    ra, rb = a[0][2], b[0][2]
    pc = a[0][0].pc + [c for c in b[0][0].pc if c is not None]
    from pysym.engine import State
    st = State(pc, {})
    return finish(ob, ob.prove([(st, 0, (ra, rb))], lambda v, s_: z3.And([zt(x) == zt(y) for x, y in zip(v[0], v[1])])))


def twin_mul_concrete(p, m):
    L = libmpf()
    s = mk_tuple(m, 's', p['sbc'])
    if p['kind'] == 'mul':
        t = mk_tuple(m, 't', p['tbc'])
        a, b = L.python_mpf_mul(s, t, p['prec'], p['rnd']), L.gmpy_mpf_mul(s, t, p['prec'], p['rnd'])
    else:
        na = m.get('n_abs', 1)
        n = -na if p.get('nneg') else na
        a, b = L.python_mpf_mul_int(s, n, p['prec'], p['rnd']), L.gmpy_mpf_mul_int(s, n, p['prec'], p['rnd'])
    return tuple(a) == tuple(b), 'python twin %r != gmpy twin %r' % (a, b)


def bit_prims(p):
    """python_bitcount(n) == bit length; python_trailing(n) == number of trailing zero bits"""
    from mpmath.libmp import libintmath
    fn, bits = p['fn'], p['bits']
    ob = Ob(wbump(p, bits + 40), timeout_s=p.get('_t', 60))
    n = ob.int('n', 1 << (bits - 1), (1 << bits) - 1) if bits > 1 else 1
    if fn == 'python_bitcount':
        outs = ob.run(libintmath.python_bitcount, [n])
        return finish(ob, ob.prove(outs, lambda v, st: zt(v) == B(bits)))
    outs = ob.run(libintmath.python_trailing, [n])

    def good(v, st):
        t = zt(v)
        nt = zt(n)
        one = B(1)
        return z3.And(t >= B(0), t < B(bits), (nt & ((one << t) - one)) == B(0), z3.Extract(0, 0, z3.LShR(nt, t)) == 1)
    return finish(ob, ob.prove(outs, good))


def bit_prims_concrete(p, m):
    from mpmath.libmp import libintmath
    n = m.get('n', 1)
    if p['fn'] == 'python_bitcount':
        r = libintmath.python_bitcount(n)
        return r == n.bit_length(), 'python_bitcount(%d) = %r, bit_length = %d' % (n, r, n.bit_length())
    r = libintmath.python_trailing(n)
    want = (n & -n).bit_length() - 1
    return r == want, 'python_trailing(%d) = %r, expected %d' % (n, r, want)


def sqrtrem_loops(p):
    """sqrtrem_python's correction loops: whatever isqrt_fast_python returns within its documented error (true root or one
    below -- 'almost always correct, 1 ulp too small with small probability'), the function returns (y, rem) with
    y*y + rem == x and 0 <= rem <= 2*y.  The size cutoff (_1_600) is lowered by the harness so that the large-argument path
    runs on small x where the squares are precise."""
    from mpmath.libmp import libintmath
    from pysym.engine import NORMAL
    from pysym.values import fresh_int
    bits = p['bits']
    ob = Ob(wbump(p, 2 * bits + 40), timeout_s=p.get('_t', 60), mul_precise_bits=4096)
    x = ob.int('x', 1 << (bits - 1), (1 << bits) - 1)
    rmax = 1 << ((bits + 1) // 2)
    r = ob.int('r', 0, rmax)
    d = ob.int('d', -1, 0)
    xt, rt = zt(x), zt(r)
    ob.assume.append(z3.And(z3.ULE(rt * rt, xt), z3.UGT((rt + B(1)) * (rt + B(1)), xt)))

    def m_fast(eng, st, args, kw, fr):
        return [(st, NORMAL, V.binop(__import__('operator').add, r, d))]
    ob.eng.models[libintmath.isqrt_fast_python] = m_fast
    heap = {(id(libintmath.sqrtrem_python.__globals__), ('global', '_1_600')): (libintmath.sqrtrem_python.__globals__, 0)}
    outs = ob.run(libintmath.sqrtrem_python, [x], heap=heap)

    def good(val, st):
        y, rem = val
        yt, mt = zt(y), zt(rem)
        return z3.And(yt == rt, mt == xt - rt * rt, mt >= B(0), mt <= yt + yt)
    return finish(ob, ob.prove(outs, good))


def sqrtrem_loops_concrete(p, m):
    """replay on the real large-argument path: a perfect-square-adjacent 700-bit argument built from the model's low bits"""
    from mpmath.libmp import libintmath
    import math
    seeds = [m.get('x', 3), m.get('r', 1)]
    for k in range(40):
        root = (1 << (450 + 37 * (k % 5))) + (seeds[0] * 2654435761 + k * 40503) % (1 << 300)
        for x in (root * root, root * root + 1, root * root - 1, root * root + 2 * root):
            y, rem = libintmath.sqrtrem_python(x)
            if y != math.isqrt(x) or rem != x - y * y:
                return False, 'sqrtrem_python(%d-bit x) returned a wrong root/remainder: y off by %d' % (x.bit_length(), y - math.isqrt(x))
    return None, 'UNCONFIRMED: abstract violation of the correction loops not reproduced on 160 concrete 900..1200-bit arguments'
