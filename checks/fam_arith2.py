"""Families for integer-part functions, modulo, conversions to int, shifts (C06, C01, C10, C39)."""
import operator
from fractions import Fraction
import math

import z3

from pysym import values as V
from pysym.values import G, SInt, bvv, zt, binop, Unsupported
from pysym import mpmodels
from vlib.ob import Ob, add, sub
from vlib import oracle as O
from vlib.oracle import B, ref_round, canonical, is_tuple, value_matches, FZERO, FNAN, FINF, FNINF
from checks.fam_arith import finish, wbump, aspect_good, mk_tuple, libmpf, FALSE, TRUE, E30, _ctx


def _int_part(fn, m, neg, k):
    """signed integer (BV) floor/ceil/nearest-even of (+-m) / 2**k, k > 0, m BV magnitude"""
    q = z3.LShR(m, k)
    r = m & B((1 << k) - 1)
    one = B(1)
    inexact = r != B(0)
    if fn == 'floor':
        mag = z3.If(z3.And(neg, inexact), q + one, q)
    elif fn == 'ceil':
        mag = z3.If(z3.And(z3.Not(neg), inexact), q + one, q)
    elif fn == 'trunc':
        mag = q
    elif fn == 'away':
        mag = z3.If(inexact, q + one, q)
    else:
        half = B(1 << (k - 1))
        up = z3.Or(z3.UGT(r, half), z3.And(r == half, z3.Extract(0, 0, q) == 1))
        mag = z3.If(up, q + one, q)
    return mag


def round_int(p):
    """mpf_floor / mpf_ceil / mpf_nint (with optional prec, rnd) on x = +-man * 2**exp, exp concrete"""
    bc, exp, fn, prec, rnd = p['bc'], p['exp'], p['fn'], p.get('prec', 0), p.get('rnd', 'd')
    ob = Ob(wbump(p, bc + abs(exp) + 60), timeout_s=p.get('_t', 60))
    x = ob.mpf('x', bc, exp=exp)
    L = libmpf()
    entry = p.get('entry', 'libmp')
    kind = fn[4:]   # floor/ceil/nint
    if entry == 'libmp':
        outs = ob.run(getattr(L, fn), [x] + ([prec, rnd] if prec else []))
        unwrap = lambda v, st: v
    else:
        mp = _ctx(prec or 53)
        xo = mp.make_mpf(x)
        f = getattr(mp, kind)
        outs = ob.run(f, [xo], dict(prec=prec, rounding=rnd) if entry == 'kw' else {})
        cls = mp.mpf

        def unwrap(v, st):
            if not isinstance(v, cls):
                return None
            h = st.heap.get((id(v), '_mpf_'))
            return h[1] if h is not None else v._mpf_
        if entry == 'ctx':
            rnd = 'n'
    neg = zt(x[0]) == B(1)
    m = zt(x[1])
    if exp >= 0:
        mag, base, top = m, B(exp), bc
    else:
        mag, base, top = _int_part(kind, m, neg, -exp), B(0), max(bc + exp, 0) + 1

    def good(val, st):
        val = unwrap(val, st)
        if val is None:
            return False

        def full():
            R = ref_round(mag, FALSE, prec, rnd, neg, 1, top + 1) if prec else mag
            return z3.If(mag == B(0), is_tuple(val, FZERO), value_matches(val, neg, R, base, top + 2, prec or None))
        return aspect_good(p.get('aspect', 'round'), val, prec, full)
    return finish(ob, ob.prove(outs, good))


def round_int_concrete(p, m):
    L = libmpf()
    bc, exp, fn, prec, rnd = p['bc'], p['exp'], p['fn'], p.get('prec', 0), p.get('rnd', 'd')
    x = mk_tuple(m, 'x', bc, exp=exp)
    entry = p.get('entry', 'libmp')
    if entry == 'libmp':
        r = getattr(L, fn)(x, *([prec, rnd] if prec else []))
    else:
        mp = _ctx(prec or 53)
        try:
            r = getattr(mp, fn[4:])(mp.make_mpf(x), **(dict(prec=prec, rounding=rnd) if entry == 'kw' else {}))._mpf_
        finally:
            mp.prec = 53
        if entry == 'ctx':
            rnd = 'n'
    v = O.frac_of(x)
    I = {'mpf_floor': math.floor(v), 'mpf_ceil': math.ceil(v), 'mpf_nint': round(v)}[fn]   # round(): Fraction ties to even
    return O.check_rounded(r, Fraction(I), prec, rnd)


def frac(p):
    bc, exp, prec, rnd = p['bc'], p['exp'], p['prec'], p['rnd']
    ob = Ob(wbump(p, bc + abs(exp) + 60), timeout_s=p.get('_t', 60))
    x = ob.mpf('x', bc, exp=exp)
    L = libmpf()
    outs = ob.run(L.mpf_frac, [x, prec, rnd])
    neg = zt(x[0]) == B(1)
    m = zt(x[1])
    if exp >= 0:
        fr, k = B(0), 0
    else:
        k = -exp
        if k >= bc:
            r = m
        else:
            r = m & B((1 << k) - 1)
        fr = z3.If(z3.And(neg, r != B(0)), B(1 << k) - r, r)

    def good(val, st):
        def full():
            R = ref_round(fr, FALSE, prec, rnd, FALSE, 1, k + 1) if prec else fr
            return z3.If(fr == B(0), is_tuple(val, FZERO), value_matches(val, FALSE, R, B(exp), k + 2, prec or None))
        return aspect_good(p.get('aspect', 'round'), val, prec, full)
    return finish(ob, ob.prove(outs, good))


def frac_concrete(p, m):
    L = libmpf()
    x = mk_tuple(m, 'x', p['bc'], exp=p['exp'])
    r = L.mpf_frac(x, p['prec'], p['rnd'])
    v = O.frac_of(x)
    return O.check_rounded(r, v - math.floor(v), p['prec'], p['rnd'])


def to_int(p):
    """to_int(s, rnd) with rnd in None,f,c,d,u,n"""
    bc, exp, rnd = p['bc'], p['exp'], p['rnd']
    ob = Ob(wbump(p, bc + abs(exp) + 60), timeout_s=p.get('_t', 60))
    x = ob.mpf('x', bc, exp=exp)
    L = libmpf()
    outs = ob.run(L.to_int, [x] + ([rnd] if rnd else []))
    neg = zt(x[0]) == B(1)
    m = zt(x[1])
    if exp >= 0:
        mag = m << exp
    else:
        kind = {None: 'trunc', 'd': 'trunc', 'f': 'floor', 'c': 'ceil', 'u': 'away', 'n': 'nint'}[rnd]
        mag = _int_part(kind, m, neg, -exp)
    want = z3.If(neg, -mag, mag)

    def good(val, st):
        return zt(val) == want
    return finish(ob, ob.prove(outs, good))


def to_int_concrete(p, m):
    L = libmpf()
    x = mk_tuple(m, 'x', p['bc'], exp=p['exp'])
    rnd = p['rnd']
    r = L.to_int(x, *([rnd] if rnd else []))
    v = O.frac_of(x)
    want = {None: math.trunc(v), 'd': math.trunc(v), 'f': math.floor(v), 'c': math.ceil(v), 'n': round(v),
            'u': (math.ceil(v) if v > 0 else math.floor(v))}[rnd]
    return (r == want and type(r) is int), 'to_int(%r, %r) = %r, expected %r' % (x, rnd, r, want)


def mod(p):
    """mpf_mod(s, t, prec, rnd): signs concrete (part of the shape), mantissas symbolic, exponent offset concrete"""
    sbc, tbc, off, prec, rnd, ss, ts = p['sbc'], p['tbc'], p['off'], p['prec'], p['rnd'], p['ssign'], p['tsign']
    top = max(sbc + max(off, 0), tbc + max(-off, 0)) + 2
    ob = Ob(wbump(p, top + 60), timeout_s=p.get('_t', 60), mul_precise_bits=0)
    t = ob.mpf('t', tbc, sign=ts, E=p.get('E', E30))
    s = ob.mpf('s', sbc, exp=add(t[2], off), sign=ss) if sbc else FZERO       # sbc == 0: exact zero dividend
    L = libmpf()
    entry = p.get('entry', 'libmp')
    if entry == 'libmp':
        outs = ob.run(L.mpf_mod, [s, t, prec, rnd])
        unwrap = lambda v, st: v
    else:
        from checks.fam_arith import _api_binary
        outs, unwrap = _api_binary(ob, entry, '%', s, t, prec, rnd)
    sm, tm = zt(s[1]), zt(t[1])
    if not sbc:
        S, T, base = B(0), tm, zt(t[2])
    elif off >= 0:
        S, T, base = sm << off, tm, zt(t[2])
    else:
        S, T, base = sm, tm << (-off), zt(s[2])
    r0 = z3.URem(S, T)
    if ss == ts:
        mag = r0
    else:
        mag = z3.If(r0 == B(0), B(0), T - r0)
    neg = z3.BoolVal(bool(ts))

    def good(val, st):
        val = unwrap(val, st)
        if val is None:
            return False

        def full():
            R = ref_round(mag, FALSE, prec, rnd, neg, 1, top)
            return z3.If(mag == B(0), is_tuple(val, FZERO), value_matches(val, neg, R, base, top + 1, prec))
        return aspect_good(p.get('aspect', 'round'), val, prec, full)
    return finish(ob, ob.prove(outs, good))


def mod_concrete(p, m):
    L = libmpf()
    t = mk_tuple(m, 't', p['tbc'], sign=p['tsign'])
    s = mk_tuple(m, 's', p['sbc'], exp=t[2] + p['off'], sign=p['ssign']) if p['sbc'] else FZERO
    if p.get('entry', 'libmp') == 'libmp':
        r = L.mpf_mod(s, t, p['prec'], p['rnd'])
    else:
        from checks.fam_arith import _api_binary_concrete
        r = _api_binary_concrete(p['entry'], '%', s, t, p['prec'], p['rnd'])
    E0 = min(s[2], t[2]) if p['sbc'] else t[2]
    x, y = (O.frac_of(s, E0) if p['sbc'] else Fraction(0)), O.frac_of(t, E0)
    want = x - y * math.floor(x / y)
    return O.check_rounded(r, want, p['prec'], p['rnd'], shift=E0)


def shift_frexp(p):
    """mpf_shift (exact scaling) and mpf_frexp"""
    bc, fn = p['bc'], p['fn']
    ob = Ob(wbump(p, bc + 60), timeout_s=p.get('_t', 60))
    x = ob.mpf('x', bc)
    L = libmpf()
    if fn == 'mpf_shift':
        n = ob.int('n', -E30, E30)
        outs = ob.run(L.mpf_shift, [x, n])

        def good(val, st):
            return z3.And(canonical(val), zt(val[0]) == zt(x[0]), zt(val[1]) == zt(x[1]), zt(val[2]) == zt(x[2]) + zt(n), zt(val[3]) == B(bc))
    else:
        outs = ob.run(L.mpf_frexp, [x])

        def good(val, st):
            y, n = val
            # y = x * 2**-n with |y| in [1/2, 1): exponent of y is -bc
            return z3.And(canonical(y), zt(y[0]) == zt(x[0]), zt(y[1]) == zt(x[1]), zt(y[2]) == B(-bc), zt(n) == zt(x[2]) + B(bc))
    return finish(ob, ob.prove(outs, good))


def shift_frexp_concrete(p, m):
    L = libmpf()
    x = mk_tuple(m, 'x', p['bc'])
    if p['fn'] == 'mpf_shift':
        r = L.mpf_shift(x, m['n'])
        ok = O.canonical_concrete(r) and r == (x[0], x[1], x[2] + m['n'], x[3])
        return ok, 'mpf_shift(%r, %r) = %r' % (x, m['n'], r)
    y, n = L.mpf_frexp(x)
    ok = O.canonical_concrete(y) and y == (x[0], x[1], -x[3], x[3]) and n == x[2] + x[3]
    return ok, 'mpf_frexp(%r) = %r' % (x, (y, n))


# ------------------------------------------------------------------------------ complex floor / ceil / nint / frac (componentwise)
def _part_want(kind, x, exp, bc, prec, rnd):
    """(predicate builder) for one component x = +-man*2**exp: returns f(val) -> z3 Bool"""
    neg = zt(x[0]) == B(1)
    m = zt(x[1])
    if kind == 'frac':
        if exp >= 0:
            fr, k = B(0), 0
        else:
            k = -exp
            r = m if k >= bc else (m & B((1 << k) - 1))
            fr = z3.If(z3.And(neg, r != B(0)), B(1 << k) - r, r)

        def f(val):
            R = ref_round(fr, FALSE, prec, rnd, FALSE, 1, k + 1)
            return z3.If(fr == B(0), is_tuple(val, FZERO), value_matches(val, FALSE, R, B(exp), k + 2, prec))
        return f
    if exp >= 0:
        mag, base, top = m, B(exp), bc
    else:
        mag, base, top = _int_part(kind, m, neg, -exp), B(0), max(bc + exp, 0) + 1

    def f(val):
        R = ref_round(mag, FALSE, prec, rnd, neg, 1, top + 1)
        return z3.If(mag == B(0), is_tuple(val, FZERO), value_matches(val, neg, R, base, top + 2, prec))
    return f


def cround(p):
    """mp.floor / mp.ceil / mp.nint / mp.frac of an mpc (and mpc_floor etc. directly): componentwise definition, each part
    correctly rounded at the (context or keyword) precision.  Exponents of both parts concrete, mantissas and signs symbolic."""
    kind, bcs, exps, prec, rnd = p['kind'], p['bcs'], p['exps'], p['prec'], p.get('rnd', 'n')
    ob = Ob(wbump(p, max(bcs) + max(abs(e) for e in exps) + 64), timeout_s=p.get('_t', 60))
    re = ob.mpf('re', bcs[0], exp=exps[0])
    im = ob.mpf('im', bcs[1], exp=exps[1])
    entry = p.get('entry', 'ctx')
    if entry == 'libmp':
        from mpmath.libmp import libmpc as Lc
        outs = ob.run(getattr(Lc, 'mpc_' + kind), [(re, im), prec, rnd])
        unwrap = lambda v, st: v
    else:
        mp = _ctx(prec)
        kw = dict(prec=prec, rounding=rnd) if entry == 'kw' else {}
        if entry == 'ctx' and rnd != 'n':
            raise Unsupported('context route rounds to nearest')
        outs = ob.run(getattr(mp, kind), [mp.make_mpc((re, im))], kw)
        cls = mp.mpc

        def unwrap(v, st):
            if not isinstance(v, cls):
                return None
            h = st.heap.get((id(v), '_mpc_'))
            return h[1] if h is not None else v._mpc_
    fr = _part_want(kind, re, exps[0], bcs[0], prec, rnd)
    fi = _part_want(kind, im, exps[1], bcs[1], prec, rnd)

    def good(val, st):
        val = unwrap(val, st)
        if val is None:
            return False
        return [fr(val[0]), fi(val[1])]
    return finish(ob, ob.prove(outs, good))


def cround_concrete(p, m):
    kind, bcs, exps, prec, rnd = p['kind'], p['bcs'], p['exps'], p['prec'], p.get('rnd', 'n')
    re = mk_tuple(m, 're', bcs[0], exp=exps[0])
    im = mk_tuple(m, 'im', bcs[1], exp=exps[1])
    entry = p.get('entry', 'ctx')
    if entry == 'libmp':
        from mpmath.libmp import libmpc as Lc
        r = getattr(Lc, 'mpc_' + kind)((re, im), prec, rnd)
    else:
        mp = _ctx(prec)
        try:
            r = getattr(mp, kind)(mp.make_mpc((re, im)), **(dict(prec=prec, rounding=rnd) if entry == 'kw' else {}))._mpc_
        finally:
            mp.prec = 53
    msgs = []
    for part, x, nm in ((r[0], re, 're'), (r[1], im, 'im')):
        v = O.frac_of(x)
        want = {'floor': Fraction(math.floor(v)), 'ceil': Fraction(math.ceil(v)), 'nint': Fraction(round(v)), 'frac': v - math.floor(v)}[kind]
        if want == 0:
            ok, d = tuple(part) == FZERO, 'exact value 0, got %r' % (part,)
        else:
            ok, d = O.check_rounded(part, want, prec, rnd)
        if not ok:
            msgs.append(nm + ': ' + d)
    return not msgs, ' '.join(msgs)
