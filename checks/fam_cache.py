"""Families for the constant cache protocol (C17, C33): constant_memo and def_mpf_constant executed from /repo's source
with the fixed-point series routine replaced by its idealised contract F(q) = floor(C * 2**q) for one unknown real constant
C in [1/4, 4), represented exactly for q <= 64 by the symbolic integer c = floor(C * 2**64):  F(q) = c >> (64 - q)."""
import operator

import z3

from pysym import values as V
from pysym.values import G, SInt, SBool, Unknown, bvv, zt, zb, binop, Unsupported
from pysym.engine import NORMAL, RAISE
from vlib.ob import Ob
from vlib import oracle as O
from vlib.oracle import B, ref_round, canonical, is_tuple, value_matches
from checks.fam_arith import finish, wbump, FALSE, TRUE

QMAX = 64


def _const(ob):
    c = ob.int('c', 1 << (QMAX - 2), (1 << (QMAX + 2)) - 1)         # C in [1/4, 4)
    return c


def _F(c, q):
    """floor(C * 2**q) for q <= 64 (q int or SInt)"""
    return binop(operator.rshift, c, binop(operator.sub, QMAX, q))


def _raw_of(g):
    cells = dict(zip(g.__code__.co_freevars, g.__closure__ or ()))
    return cells['f'].cell_contents


class Fault(ArithmeticError):
    pass


def const_memo(p):
    """constant_memo.g(prec) from an arbitrary valid cache state; with fault=1 the series routine raises.
    Obligations: return value == F(prec) independent of the cache state; the cache stays valid (memo_val == F(memo_prec))
    at every exit, including the exceptional one."""
    import importlib
    name, P, state, fault = p.get('name', 'pi_fixed'), p['prec'], p['state'], p.get('fault', 0)
    g = getattr(importlib.import_module(p.get('mod', 'mpmath.libmp.libelefun')), name)
    f = _raw_of(g)
    ob = Ob(wbump(p, QMAX + 40), timeout_s=p.get('_t', 60))
    c = _const(ob)
    heap = {}
    if state == 'empty':
        heap[(id(f), 'memo_prec')] = (f, -1)
        heap[(id(f), 'memo_val')] = (f, None)
    else:
        Q = ob.int('Q', 11, QMAX)        # reachable cache labels: int(prec*1.05+10) >= 11
        heap[(id(f), 'memo_prec')] = (f, Q)
        heap[(id(f), 'memo_val')] = (f, _F(c, Q))

    def m_raw(eng, st, args, kw, fr):
        q = args[0]
        if isinstance(q, (SInt, int)) and V.bounds(q)[1] <= QMAX:
            outs = [(st, NORMAL, _F(c, q))]
        else:
            raise Unsupported('series routine requested beyond the modelled precision range')
        if fault:
            outs.append((st.copy(), RAISE, Fault('series routine failed')))
        return outs
    ob.eng.models[f] = m_raw
    outs = ob.run(g, [P], heap=heap)

    def inv(st):
        mp_ = st.heap[(id(f), 'memo_prec')][1]
        mv = st.heap[(id(f), 'memo_val')][1]
        if mv is None:
            return zt(mp_) == B(-1) if isinstance(mp_, (SInt, int)) else False
        if not isinstance(mp_, (SInt, int)) or not isinstance(mv, (SInt, int)):
            return False
        mpt = zt(mp_)
        return z3.And(mpt >= B(0), mpt <= B(QMAX), zt(mv) == z3.LShR(zt(c), B(QMAX) - mpt))

    def good(val, st):
        if not isinstance(val, (SInt, int)):
            return False
        return [zt(val) == zt(_F(c, P)), inv(st)]

    def good_raise(exc, st):
        return [z3.BoolVal(isinstance(exc, Fault)), inv(st)]
    return finish(ob, ob.prove(outs, good, good_raise))


def const_memo_concrete(p, m):
    """replay on the real code with a real series routine: the cached constant after a (possibly failing) request sequence must
    still deliver floor(C*2**prec)"""
    import importlib
    name, P, fault = p.get('name', 'pi_fixed'), p['prec'], p.get('fault', 0)
    g = getattr(importlib.import_module(p.get('mod', 'mpmath.libmp.libelefun')), name)
    f = _raw_of(g)
    saved = (f.memo_prec, f.memo_val)
    ref = {}
    try:
        f.memo_prec, f.memo_val = -1, None
        ref = {q: g(q) for q in (P, 30, 200)}        # fresh values
        f.memo_prec, f.memo_val = -1, None
        if p['state'] != 'empty':
            fp = max(1, int((m.get('Q', 20) - 10) / 1.05))
            while fp > 1 and int(fp * 1.05 + 10) > m.get('Q', 20):
                fp -= 1
            g(fp)
        if fault:
            import mpmath.libmp.libelefun as LE
            orig_code = f.__code__

            def boom(*a, **k):
                raise ArithmeticError('injected fault in the series routine')
            f.__code__ = boom.__code__
            try:
                try:
                    g(P)
                except ArithmeticError:
                    pass
            finally:
                f.__code__ = orig_code
        else:
            if g(P) != ref[P]:
                return False, '%s(%d) depends on the cache state' % (name, P)
        for q in (P, 30, 200):
            try:
                v = g(q)
            except Exception as e:
                return False, '%s(%d) raised %r after the %s request' % (name, q, e, 'failed' if fault else 'earlier')
            if v != ref[q]:
                return False, '%s(%d) = %d after the %s request at prec %d, a fresh evaluation gives %d' % (name, q, v, 'failed' if fault else 'earlier', P, ref[q])
        return True, ''
    finally:
        f.memo_prec, f.memo_val = saved


def const_round(p):
    """def_mpf_constant.f(prec, rnd): floor/down: correctly rounded; ceiling/up: correctly rounded (and >= C); nearest: correctly
    rounded unless the 20 guard bits are exactly 100...0 (a tie that cannot be resolved from the truncated value)"""
    from mpmath.libmp import libelefun
    name, prec, rnd = p.get('name', 'mpf_pi'), p['prec'], p['rnd']
    fconst = getattr(libelefun, name)
    cells = dict(zip(fconst.__code__.co_freevars, fconst.__closure__ or ()))
    fixed = cells['fixed'].cell_contents
    wp = prec + 20
    if wp > QMAX:
        raise Unsupported('prec + 20 exceeds the modelled range')
    ob = Ob(wbump(p, QMAX + 60), timeout_s=p.get('_t', 60))
    c = _const(ob)

    def m_fixed(eng, st, args, kw, fr):
        return [(st, NORMAL, _F(c, args[0]))]
    ob.eng.models[fixed] = m_fixed
    outs = ob.run(fconst, [prec, rnd])
    v = zt(_F(c, wp))              # C * 2**wp lies strictly inside (v, v+1)
    vlo = (1 << (wp - 2)).bit_length()
    vhi = ((1 << (wp + 2)) - 1).bit_length()

    def good(val, st):
        R = ref_round(v, TRUE, prec, rnd, FALSE, vlo, vhi)
        ok = value_matches(val, FALSE, R, B(-wp), vhi + 2, prec)
        if rnd == 'n':
            # tie pattern of the truncated value: guard bits exactly 100..0 relative to the result's last place
            ties = []
            for bl in range(vlo, vhi + 1):
                k = bl - prec
                if k > 0:
                    ties.append(z3.And(z3.UGE(v, B(1 << (bl - 1))), z3.ULT(v, B(1 << bl)), (v & B((1 << k) - 1)) == B(1 << (k - 1))))
            return z3.Or(ok, z3.Or(ties))
        return ok
    return finish(ob, ob.prove(outs, good))


def const_round_concrete(p, m):
    """real constant: compare with a 200-bit evaluation of the real fixed-point routine"""
    from mpmath.libmp import libelefun
    from fractions import Fraction
    name, prec, rnd = p.get('name', 'mpf_pi'), p['prec'], p['rnd']
    fconst = getattr(libelefun, name)
    cells = dict(zip(fconst.__code__.co_freevars, fconst.__closure__ or ()))
    fixed = cells['fixed'].cell_contents
    # the obligation speaks about an arbitrary constant; the real constant exhibits a wrong rounding only at the precisions where
    # its own guard bits have the offending pattern, so the replay scans the precisions around the model's one and up to 3000 bits
    scan = [prec] + [q for q in range(1, 3001) if q != prec]
    ref = fixed(3300)
    for q in scan:
        r = fconst(q, rnd)
        exact = Fraction(2 * ref + 1, 2) / Fraction(2) ** 3300
        ok, det = O.check_rounded(r, exact, q, rnd)
        if not ok:
            return False, '%s(prec=%d, rnd=%r): %s' % (name, q, rnd, det[:300])
    return None, 'UNCONFIRMED: the wrapper is not correct for every constant (solver model c = %r), but the real %s is rounded correctly at every precision up to 3000 bits' % (m.get('c'), name)
