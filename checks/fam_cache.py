"""Families for the constant cache protocol (C17, C33): constant_memo and def_mpf_constant executed from /repo's source
with the fixed-point series routine replaced by its idealised contract F(q) = floor(C * 2**q) for one unknown real constant
C in [1/4, 4), represented exactly for q <= 64 by the symbolic integer c = floor(C * 2**64):  F(q) = c >> (64 - q)."""
import operator

import z3

from pysym import values as V
from pysym.values import G, SInt, SBool, Unknown, bvv, zt, zb, binop, Unsupported
from pysym.engine import NORMAL, RAISE
from vlib.ob import Ob
from vlib import oracle as O
from vlib.oracle import B, ref_round, canonical, is_tuple, value_matches, RNDS
from checks.fam_arith import finish, wbump, FALSE, TRUE

QMAX = 64


def _const(ob):
    c = ob.int('c', 1 << (QMAX - 2), (1 << (QMAX + 2)) - 1)         # C in [1/4, 4)
    return c


def _F(c, q):
    """floor(C * 2**q) for q <= 64 (q int or SInt)"""
    return binop(operator.rshift, c, binop(operator.sub, QMAX, q))


def _raw_of(g):
    cells = dict(zip(g.__code__.co_freevars, g.__closure__ or ()))
    return cells['f'].cell_contents


class Fault(ArithmeticError):
    pass


def const_memo(p):
    """constant_memo.g(prec) from an arbitrary valid cache state; with fault=1 the series routine raises.
    Obligations: return value == F(prec) independent of the cache state; the cache stays valid (memo_val == F(memo_prec))
    at every exit, including the exceptional one."""
    import importlib
    name, P, state, fault = p.get('name', 'pi_fixed'), p['prec'], p['state'], p.get('fault', 0)
    g = getattr(importlib.import_module(p.get('mod', 'mpmath.libmp.libelefun')), name)
    f = _raw_of(g)
    ob = Ob(wbump(p, QMAX + 40), timeout_s=p.get('_t', 60))
    c = _const(ob)
    heap = {}
    if state == 'empty':
        heap[(id(f), 'memo_prec')] = (f, -1)
        heap[(id(f), 'memo_val')] = (f, None)
    else:
        Q = ob.int('Q', 11, QMAX)        # reachable cache labels: int(prec*1.05+10) >= 11
        heap[(id(f), 'memo_prec')] = (f, Q)
        heap[(id(f), 'memo_val')] = (f, _F(c, Q))

    def m_raw(eng, st, args, kw, fr):
        q = args[0]
        if isinstance(q, (SInt, int)) and V.bounds(q)[1] <= QMAX:
            outs = [(st, NORMAL, _F(c, q))]
        else:
            raise Unsupported('series routine requested beyond the modelled precision range')
        if fault:
            outs.append((st.copy(), RAISE, Fault('series routine failed')))
        return outs
    ob.eng.models[f] = m_raw
    outs = ob.run(g, [P], heap=heap)

    def inv(st):
        mp_ = st.heap[(id(f), 'memo_prec')][1]
        mv = st.heap[(id(f), 'memo_val')][1]
        if mv is None:
            return zt(mp_) == B(-1) if isinstance(mp_, (SInt, int)) else False
        if not isinstance(mp_, (SInt, int)) or not isinstance(mv, (SInt, int)):
            return False
        mpt = zt(mp_)
        return z3.And(mpt >= B(0), mpt <= B(QMAX), zt(mv) == z3.LShR(zt(c), B(QMAX) - mpt))

    def good(val, st):
        if not isinstance(val, (SInt, int)):
            return False
        return [zt(val) == zt(_F(c, P)), inv(st)]

    def good_raise(exc, st):
        return [z3.BoolVal(isinstance(exc, Fault)), inv(st)]
    return finish(ob, ob.prove(outs, good, good_raise))


def const_memo_concrete(p, m):
    """replay on the real code with a real series routine: the cached constant after a (possibly failing) request sequence must
    still deliver floor(C*2**prec)"""
    import importlib
    name, P, fault = p.get('name', 'pi_fixed'), p['prec'], p.get('fault', 0)
    g = getattr(importlib.import_module(p.get('mod', 'mpmath.libmp.libelefun')), name)
    f = _raw_of(g)
    saved = (f.memo_prec, f.memo_val)
    ref = {}
    try:
        f.memo_prec, f.memo_val = -1, None
        ref = {q: g(q) for q in (P, 30, 200)}        # fresh values
        f.memo_prec, f.memo_val = -1, None
        if p['state'] != 'empty':
            fp = max(1, int((m.get('Q', 20) - 10) / 1.05))
            while fp > 1 and int(fp * 1.05 + 10) > m.get('Q', 20):
                fp -= 1
            g(fp)
        if fault:
            import mpmath.libmp.libelefun as LE
            orig_code = f.__code__

            def boom(*a, **k):
                raise ArithmeticError('injected fault in the series routine')
            f.__code__ = boom.__code__
            try:
                try:
                    g(P)
                except ArithmeticError:
                    pass
            finally:
                f.__code__ = orig_code
        else:
            if g(P) != ref[P]:
                return False, '%s(%d) depends on the cache state' % (name, P)
        for q in (P, 30, 200):
            try:
                v = g(q)
            except Exception as e:
                return False, '%s(%d) raised %r after the %s request' % (name, q, e, 'failed' if fault else 'earlier')
            if v != ref[q]:
                return False, '%s(%d) = %d after the %s request at prec %d, a fresh evaluation gives %d' % (name, q, v, 'failed' if fault else 'earlier', P, ref[q])
        return True, ''
    finally:
        f.memo_prec, f.memo_val = saved


def const_round(p):
    """def_mpf_constant.f(prec, rnd): floor/down: correctly rounded; ceiling/up: correctly rounded (and >= C); nearest: correctly
    rounded unless the 20 guard bits are exactly 100...0 (a tie that cannot be resolved from the truncated value)"""
    from mpmath.libmp import libelefun
    name, prec, rnd = p.get('name', 'mpf_pi'), p['prec'], p['rnd']
    fconst = getattr(libelefun, name)
    cells = dict(zip(fconst.__code__.co_freevars, fconst.__closure__ or ()))
    fixed = cells['fixed'].cell_contents
    wp = prec + 20
    if wp > QMAX:
        raise Unsupported('prec + 20 exceeds the modelled range')
    ob = Ob(wbump(p, QMAX + 60), timeout_s=p.get('_t', 60))
    c = _const(ob)

    def m_fixed(eng, st, args, kw, fr):
        return [(st, NORMAL, _F(c, args[0]))]
    ob.eng.models[fixed] = m_fixed
    outs = ob.run(fconst, [prec, rnd])
    v = zt(_F(c, wp))              # C * 2**wp lies strictly inside (v, v+1)
    vlo = (1 << (wp - 2)).bit_length()
    vhi = ((1 << (wp + 2)) - 1).bit_length()

    def good(val, st):
        R = ref_round(v, TRUE, prec, rnd, FALSE, vlo, vhi)
        ok = value_matches(val, FALSE, R, B(-wp), vhi + 2, prec)
        if rnd == 'n':
            # tie pattern of the truncated value: guard bits exactly 100..0 relative to the result's last place
            ties = []
            for bl in range(vlo, vhi + 1):
                k = bl - prec
                if k > 0:
                    ties.append(z3.And(z3.UGE(v, B(1 << (bl - 1))), z3.ULT(v, B(1 << bl)), (v & B((1 << k) - 1)) == B(1 << (k - 1))))
            return z3.Or(ok, z3.Or(ties))
        return ok
    return finish(ob, ob.prove(outs, good))


def const_round_concrete(p, m):
    """real constant: compare with a 200-bit evaluation of the real fixed-point routine"""
    from mpmath.libmp import libelefun
    from fractions import Fraction
    name, prec, rnd = p.get('name', 'mpf_pi'), p['prec'], p['rnd']
    fconst = getattr(libelefun, name)
    cells = dict(zip(fconst.__code__.co_freevars, fconst.__closure__ or ()))
    fixed = cells['fixed'].cell_contents
    # the obligation speaks about an arbitrary constant; the real constant exhibits a wrong rounding only at the precisions where
    # its own guard bits have the offending pattern, so the replay scans the precisions around the model's one and up to 3000 bits
    scan = [prec] + [q for q in range(1, 3001) if q != prec]
    ref = fixed(3300)
    for q in scan:
        r = fconst(q, rnd)
        exact = Fraction(2 * ref + 1, 2) / Fraction(2) ** 3300
        ok, det = O.check_rounded(r, exact, q, rnd)
        if not ok:
            return False, '%s(prec=%d, rnd=%r): %s' % (name, q, rnd, det[:300])
    return None, 'UNCONFIRMED: the wrapper is not correct for every constant (solver model c = %r), but the real %s is rounded correctly at every precision up to 3000 bits' % (m.get('c'), name)


# ------------------------------------------------------------------------------ the context-level constant objects (mp.pi, mp.e, ...)
def _drive_const_ctx(k, ctx, via1, p1, r1, via2, p2, r2):
    """two requests in sequence on the same constant object; each either k(prec=, rounding=) or the implicit use (the _mpf_
    property, which reads the context's current precision and rounding mode)"""
    if via1 == 'call':
        a = k(prec=p1, rounding=r1)._mpf_
    else:
        ctx._prec_rounding[0] = p1
        ctx._prec_rounding[1] = r1
        a = k._mpf_
    if via2 == 'call':
        b = k(prec=p2, rounding=r2)._mpf_
    else:
        ctx._prec_rounding[0] = p2
        ctx._prec_rounding[1] = r2
        b = k._mpf_
    return a, b


_drive_const_ctx._pysym_interpret = True


def const_ctx(p):
    """history independence of the context's constant objects: for any two requests in sequence (symbolic precisions p1, p2 in
    1..2^20, given rounding modes, explicit call or implicit use), each result is exactly what the libmp constant function
    (replaced by an arbitrary function of (precision, rounding mode)) returns for THAT request's precision and rounding mode."""
    import mpmath
    import z3
    from checks.fam_prec import ufs, make_models
    mp = mpmath.mp.clone()
    k = getattr(mp, p.get('name', 'pi'))
    r1, r2, via1, via2 = p['r1'], p['r2'], p['via1'], p['via2']
    Wd = 64
    PD, DP = ufs()
    ob = Ob(Wd, models=make_models(PD, DP), timeout_s=p.get('_t', 30))
    p1 = ob.int('p1', 1, 1 << 20)
    p2 = ob.int('p2', 1, 1 << 20)
    S = z3.BitVecSort(Wd)
    FM = {r: z3.Function('const_man_' + r, S, S) for r in RNDS}
    FE = {r: z3.Function('const_exp_' + r, S, S) for r in RNDS}

    def val(pt, r):
        return (0, SInt(FM[r](pt), 1, (1 << 62) - 1), SInt(FE[r](pt), -(1 << 30), 1 << 30), 62)

    def m_func(eng, st, args, kw, fr):
        q, r = args[0], args[1]
        if not isinstance(r, str) or r not in FM:
            raise Unsupported('constant function called with rounding %r' % (r,))
        t = zt(q)
        G.SIDE.append(z3.And(FM[r](t) >= B(1), FM[r](t) <= B((1 << 62) - 1), FE[r](t) >= B(-(1 << 30)), FE[r](t) <= B(1 << 30)))
        return [(st, NORMAL, val(t, r))]
    ob.eng.models[k.func] = m_func
    import checks.fam_cache as me
    outs = ob.run(me._drive_const_ctx, [k, mp, via1, p1, r1, via2, p2, r2])

    def good(val_, st):
        a, b = val_
        gs = []
        for got, pt, r in ((a, zt(p1), r1), (b, zt(p2), r2)):
            if not isinstance(got, tuple) or len(got) != 4:
                return False
            gs.append(zt(got[1]) == FM[r](pt))
            gs.append(zt(got[2]) == FE[r](pt))
        return [z3.And(gs)]
    return finish(ob, ob.prove(outs, good))


def const_ctx_concrete(p, m):
    import mpmath
    mp = mpmath.mp.clone()
    name = p.get('name', 'pi')
    k = getattr(mp, name)
    r1, r2, via1, via2 = p['r1'], p['r2'], p['via1'], p['via2']
    p1, p2 = m.get('p1', 53), m.get('p2', 53)
    # an arbitrary function of (precision, mode) cannot be replayed; the real constant function is used, and as its value may by
    # chance not distinguish the two requests at the model's precisions, precisions around them are scanned as well
    cands = [(p1, p2)] + [(q, q) for q in (p2, p1, 10, 30, 53, 64, 100, 200)] + [(q1, q2) for q1 in (p1, 53) for q2 in (p2, 60)]
    for q1, q2 in cands:
        if q1 > 20000 or q2 > 20000:
            continue
        fresh = mpmath.mp.clone()
        kk = getattr(fresh, name)

        def req(obj, ctx, via, q, r):
            if via == 'call':
                return obj(prec=q, rounding=r)._mpf_
            ctx._prec_rounding[0], ctx._prec_rounding[1] = q, r
            return obj._mpf_
        a = req(kk, fresh, via1, q1, r1)
        b = req(kk, fresh, via2, q2, r2)
        wa, wb = kk.func(q1, r1), kk.func(q2, r2)
        if a != wa or b != wb:
            return False, ('%s: request 1 (%s, prec %d, %r) then request 2 (%s, prec %d, %r) on the same constant object gives %r, %r; '
                           'each alone gives %r, %r' % (name, via1, q1, r1, via2, q2, r2, a, b, wa, wb))
    return None, 'UNCONFIRMED: sequence-dependent for an arbitrary constant function, but the real %s shows no difference at the scanned precisions' % name


# ------------------------------------------------------------------------------ matrix LU cache: invalidation on mutation
def _drive_setitem(A, key, value):
    A[key] = value
    return A._LU


_drive_setitem._pysym_interpret = True


def lu_invalidate(p):
    """one mutation step from a matrix whose LU cache is filled: after A[i, j] = v (every in-range index pair, symbolic value
    including exact zero; or a slice assignment) returns normally, the cached decomposition is gone (A._LU is None) -- it
    describes the matrix before the mutation."""
    import mpmath
    mp = mpmath.mp.clone()
    n = p.get('n', 3)
    A = mp.matrix([[(i * n + j + 1) % 5 for j in range(n)] for i in range(n)])    # has stored zeros and non-zeros
    A._LU = ('stale-L', 'stale-p')
    ob = Ob(64, timeout_s=p.get('_t', 30))
    kind, keykind = p['value'], p['key']
    # indices are grid parameters (the sparse store is a dict keyed by index pairs); the assigned value is symbolic
    i, j = p.get('i', 0), p.get('j', 0)
    if keykind == 'elem':
        key = (i, j)
    elif keykind == 'row':
        key = (i, slice(None))
    elif keykind == 'col':
        key = (slice(None), j)
    else:
        key = (slice(None), slice(None))
    if kind == 'int':
        v = ob.int('v', -2, 2)
    elif kind == 'mpf':
        v = mp.make_mpf(ob.mpf('x', 10, E=50))
    elif kind == 'zero':
        v = mp.mpf(0)
    elif kind == 'mpc0':
        v = mp.mpc(0, 0)
    else:
        v = 0.0
    import checks.fam_cache as me
    outs = ob.run(me._drive_setitem, [A, key, v])

    def good(val, st):
        return val is None
    return finish(ob, ob.prove(outs, good))


def lu_invalidate_concrete(p, m):
    import mpmath
    mp = mpmath.mp.clone()
    n = p.get('n', 3)
    A = mp.matrix([[(i * n + j + 1) % 5 for j in range(n)] for i in range(n)])
    A = A + mp.eye(n) * 7
    i, j = p.get('i', 0), p.get('j', 0)
    key = {'elem': (i, j), 'row': (i, slice(None)), 'col': (slice(None), j), 'all': (slice(None), slice(None))}[p['key']]
    kind = p['value']
    if kind == 'int':
        v = m.get('v', 0)
    elif kind == 'mpf':
        from checks.fam_arith import mk_tuple
        v = mp.make_mpf(mk_tuple(m, 'x', 10))
    else:
        v = {'zero': mp.mpf(0), 'mpc0': mp.mpc(0, 0), 'float0': 0.0}[kind]
    L0, p0 = mp.LU_decomp(A)
    old = A.copy()
    A[key] = v
    if A == old:
        return None, 'UNCONFIRMED: the assignment does not change this matrix'
    L1, p1 = mp.LU_decomp(A)
    B_ = mp.matrix(A.tolist())       # same entries, no history
    L2, p2 = mp.LU_decomp(B_)
    ok = (L1 == L2 and p1 == p2)
    return ok, 'LU_decomp(A); A[%r] = %r; LU_decomp(A) returns %r, %r but a matrix with the same entries and no history gives %r, %r' % (
        key, v, L1.tolist(), p1, L2.tolist(), p2)
