"""C14 -- real interval operations contain every possible exact result (algebraic core and wiring)."""
from checks import c02 as _c02

PROPERTY = 'C14'
LEVEL = 'other'
FI = 'checks.fam_iv:'
EXPLANATION = (
    "Bounded symbolic verification of the algebraic interval routines mpi_add, mpi_sub, mpi_neg, mpi_pos, mpi_abs, mpi_mul, "
    "mpi_mul_mpf, mpi_square, mpi_div, mpi_div_mpf, mpi_pow_int for n = 2..5 (and the iv.mpf operators + - * / and reflected forms, unary - + abs) executed "
    "from /repo's source, which inline the directed-rounding mpf kernels.  Endpoint *kinds* (negative, zero, positive, -inf, "
    "+inf), bit lengths (including endpoints longer than the interval precision) and relative exponents are concrete per "
    "obligation; mantissas and base exponents are symbolic and lower <= upper is assumed.  The solver decides that the returned "
    "lower endpoint is <= and the upper endpoint >= every corner value of the exact operation (corner lemma: the extreme values "
    "of x+y, x-y, x*y, x/y over a box are attained at corners), compared exactly at a common scale -- for division by "
    "cross-multiplication with the returned endpoint -- and that no endpoint is nan, every endpoint is canonical with at most "
    "prec bits.  Divisors containing zero must give the whole line or the correct half line.  The string forms of mpi_from_str are "
    "executed on symbolic decimal pieces (assuming C07 for the digits).  For the transcendental interval functions the accuracy "
    "of the series kernels is outside, but the places where DIRECTED rounding of exp / log / atan / atan2 fails deterministically "
    "are covered: arguments where the exact value is a representable point plus or minus less than an ulp (perturbation shortcuts "
    "for symbolic magnitudes; concrete magnitudes between the shortcut and the range the series resolves, where the real "
    "atan_taylor / exp_basecase code runs symbolically), special-value branches returning multiples of pi (mpf_pi stubbed by an "
    "arbitrary constant with its floor and ceiling), and mpf_atan2 against the contracts of its kernels (mpf_atan, mpf_pi stubs "
    "returning the directed rounding of arbitrary irrational values; the true atan(y/x) related to them by monotonicity only)."
)
TRUSTED = _c02.TRUSTED + ["corner lemma for + - * / over boxes (0 not in divisor); monotonicity of |x| on each side of 0"]
ASSUMPTIONS = ["interval invariant lower <= upper (established by the constructors)", "endpoint kinds/bit lengths/relative exponents concrete per obligation; base exponent(s) symbolic in +-2^30",
               "products/quotients: small shapes with precise bit-vector multiplication"]
BUDGET = {'quick': dict(ob_deadline_s=150, total_s=300), 'thorough': dict(ob_deadline_s=600, total_s=1500)}
BOUNDS = {'quick': 'endpoint mantissas 1..9 bits for + - abs neg (incl. infinite endpoints), 1..5 bits for * / square; prec 2..4; every sign pattern of the two intervals; directed kernels: prec 4..24, arguments of 1..7 bits with magnitudes 2^-90..2^-13'}

P = lambda bc, off: ['pos', bc, off]
N = lambda bc, off: ['neg', bc, off]
Z, NI, PI = ['zero'], ['ninf'], ['inf']


def sign_patterns(bc1, bc2, o1, o2):
    """intervals of each sign pattern with given bit lengths/offsets"""
    return [[P(bc1, o1), P(bc2, o2)], [N(bc2, o2), N(bc1, o1)], [N(bc1, o1), P(bc2, o2)], [Z, P(bc2, o2)], [N(bc1, o1), Z], [Z, Z]]


def obligations(tier, seed=0):
    obs = []
    thorough = tier == 'thorough'

    def add(fam, **kw):
        if thorough:
            kw['_t'] = 600
        obs.append((FI + fam, kw))
    S = sign_patterns(5, 6, 0, 1)
    T = sign_patterns(4, 7, 2, -1)
    for fn in ('mpi_add', 'mpi_sub'):
        for s in S:
            for t in T:
                add('iv_addsub', fn=fn, prec=3, s=s, t=t)
        # infinite endpoints
        for s, t in [([NI, P(6, 1)], [N(4, 2), P(3, 0)]), ([N(4, 0), PI], [N(4, 2), P(3, 0)]), ([NI, PI], [P(2, 0), P(3, 0)]), ([P(3, 0), P(4, 0)], [NI, N(3, 1)]),
                     ([NI, P(6, 1)], [NI, P(3, 0)]) if fn == 'mpi_add' else ([NI, P(6, 1)], [N(3, 0), PI])]:
            add('iv_addsub', fn=fn, prec=3, s=s, t=t)
        # endpoints far longer than the precision; far-apart exponents (perturbation shortcut of mpf_add, finding F1)
        add('iv_addsub', fn=fn, prec=2, s=[P(12, 101), P(12, 101)], t=[P(104, 0), P(104, 0)])
        add('iv_addsub', fn=fn, prec=2, s=[N(12, 101), P(12, 101)], t=[N(104, 0), P(104, 0)])
        # mirrored: the long far operand is the RIGHT one and the near operand is itself ~100 bits long
        add('iv_addsub', fn=fn, prec=10, s=[P(104, 0), P(104, 0)], t=[P(150, 101), P(150, 101)])
        add('iv_addsub', fn=fn, prec=10, s=[N(104, 0), P(104, 0)], t=[N(150, 101), P(150, 101)])
        add('iv_addsub', fn=fn, prec=3, s=S[2], t=T[0], entry='op')
        add('iv_addsub', fn=fn, prec=3, s=S[0], t=T[2], entry='rop')
    for fn in ('mpi_neg', 'mpi_pos', 'mpi_abs'):
        for s in S + [[NI, P(6, 1)], [N(9, 0), PI], [NI, PI], [N(9, -3), P(2, 4)]]:
            add('iv_addsub', fn=fn, prec=3, s=s)
        add('iv_addsub', fn=fn, prec=3, s=S[2], entry='op')
    S2 = sign_patterns(4, 5, 0, 1)
    T2 = sign_patterns(3, 4, 0, 0)
    for s in S2:
        for t in T2:
            add('iv_muldiv', fn='mpi_mul', prec=3, s=s, t=t)
            add('iv_muldiv', fn='mpi_div', prec=3, s=s, t=t)
        add('iv_muldiv', fn='mpi_square', prec=3, s=s)
        add('iv_muldiv', fn='mpi_mul_mpf', prec=3, s=s, t=[N(3, 1), N(3, 1)])
        add('iv_muldiv', fn='mpi_div_mpf', prec=3, s=s, t=[P(3, 1), P(3, 1)])
        # integer powers n >= 2 (sign-case analysis for even/odd n; directed mpf_pow_int on the endpoints)
        for n in (2, 3, 4, 5):
            add('iv_muldiv', fn='mpi_pow_int', n=n, prec=3, s=s)
        add('iv_muldiv', fn='mpi_pow_int', n=3, prec=2, s=s, entry='op')
        add('iv_muldiv', fn='mpi_pow_int', n=4, prec=2, s=s, entry='op')
    # seeded random shapes (deterministic for a given VERIF_SEED)
    import random
    rng = random.Random(5000 + int(seed or 0))
    for _ in range(10 if not thorough else 40):
        b1, o1 = rng.randint(1, 7), rng.randint(-3, 3)
        S_ = sign_patterns(b1, b1 + rng.randint(0, 3), o1, o1 + rng.randint(0, 3))
        b2, o2 = rng.randint(1, 6), rng.randint(-3, 3)
        T_ = sign_patterns(b2, b2 + rng.randint(0, 3), o2, o2 + rng.randint(0, 3))
        s_, t_ = rng.choice(S_[:5]), rng.choice(T_[:5])
        pr = rng.choice([1, 2, 3, 5])
        add('iv_addsub', fn=rng.choice(['mpi_add', 'mpi_sub']), prec=pr, s=s_, t=t_)
        if max(b1, b2) <= 5:
            add('iv_muldiv', fn=rng.choice(['mpi_mul', 'mpi_div']), prec=min(pr, 3), s=s_, t=t_)
            add('iv_muldiv', fn='mpi_pow_int', n=rng.choice([2, 3, 4]), prec=min(pr, 3), s=s_)
    # products far longer than the precision (more than prec+10 bits), every sign pattern of the right operand, left operand
    # straddling zero / one-signed
    for s in ([N(7, 0), P(7, 0)], [P(6, 0), P(7, 1)], [N(7, 1), N(6, 0)]):
        for t in ([N(7, 0), P(7, 0)], [P(7, 0), P(7, 1)], [N(7, 1), N(7, 0)]):
            add('iv_muldiv', fn='mpi_mul', prec=2, s=s, t=t)
    for s in ([N(8, 0), P(8, 0)], [N(5, 0), P(9, 0)]):
        for t in ([P(7, 1), P(8, 1)], [N(8, 0), P(7, 1)], [N(8, 1), N(7, 0)]):
            add('iv_muldiv', fn='mpi_mul', prec=2, s=s, t=t)
    add('iv_muldiv', fn='mpi_square', prec=2, s=[N(8, 0), P(8, 0)])
    add('iv_muldiv', fn='mpi_mul', prec=3, s=S2[2], t=T2[2], entry='op')
    add('iv_muldiv', fn='mpi_div', prec=3, s=S2[0], t=T2[1], entry='op')
    add('iv_muldiv', fn='mpi_div', prec=3, s=S2[2], t=T2[2], entry='op')
    # interval string forms: 'X +- Y', 'X (Y)', '[X, Y]', 'X' with the literal pieces denoting exact symbolic dyadic numbers
    FSTR = 'checks.fam_str:mpi_from_str'
    for xsign in (0, 1):
        for off in (0, 3):
            obs.append((FSTR, dict(form='pm', prec=2, xsign=xsign, off=off, _t=100)))
        obs.append((FSTR, dict(form='paren', prec=2, xsign=xsign, off=1, _t=100)))
        obs.append((FSTR, dict(form='plain', prec=3, xsign=xsign)))
        obs.append((FSTR, dict(form='bracket', prec=3, xsign=xsign, xbits=20, ybits=30, off=-2)))
    if thorough:
        S3 = sign_patterns(7, 8, -2, 3)
        T3 = sign_patterns(6, 6, 1, 1)
        for s in S3:
            for t in T3:
                add('iv_muldiv', fn='mpi_mul', prec=4, s=s, t=t)
                add('iv_muldiv', fn='mpi_div', prec=4, s=s, t=t)
                add('iv_addsub', fn='mpi_add', prec=24, s=[[k[0], 30, k[2]] if len(k) > 1 else k for k in s], t=[[k[0], 40, k[2]] if len(k) > 1 else k for k in t])
    obs.sort(key=lambda o: 0 if o[0].endswith('mpi_from_str') else 1)
    # directed-rounding consistency of the special-value branches interval atan2/arg/log rely on (y = -inf must mirror the mode)
    from checks.c13 import pi_special_grid
    obs += pi_special_grid('fc', tier == 'thorough')
    # directed rounding of the kernels behind iv.exp / iv.log / iv.atan where the exact value is a representable point plus or
    # minus an infinitesimal (the perturbation shortcuts and the boundary to the series path)
    FE = 'checks.fam_elem:'
    for rnd in 'fcdu':
        for sign in (0, 1):
            for prec in (5, 24):
                for k in (-2, -1, 0, 1):
                    obs.append((FE + 'near_point', dict(fn='exp', prec=prec, rnd=rnd, sign=sign, bc=3, mag=-(prec + 14) + k)))
                obs.append((FE + 'near_point', dict(fn='exp', prec=prec, rnd=rnd, sign=sign, bc=1, mag=-(prec + 14))))
            for fn in ('exp', 'atan', 'sin', 'cos', 'tan'):
                obs.append((FE + 'near_point', dict(fn=fn, prec=6, rnd=rnd, sign=sign, bc=3)))
                obs.append((FE + 'near_point', dict(fn=fn, prec=4, rnd=rnd, sign=sign, bc=7)))      # argument longer than prec
            obs.append((FE + 'near_point', dict(fn='log1', prec=6, rnd=rnd, sign=sign, bc=3, k=40)))
            obs.append((FE + 'near_point', dict(fn='log1', prec=4, rnd=rnd, sign=sign, bc=7, k=45)))
            # between the shortcut and the range where the series resolves the deviation (the real series code runs symbolically)
            for prec, mag in ((8, -22), (8, -25), (8, -15), (8, -14), (24, -22), (24, -23), (24, -30)):
                obs.append((FE + 'near_point', dict(fn='atan', prec=prec, rnd=rnd, sign=sign, bc=3, mag=mag)))
            for prec, mag, bc in ((16, -15, 1), (16, -13, 2), (24, -23, 1), (24, -22, 1), (24, -20, 3), (24, -14, 3)):
                obs.append((FE + 'near_point', dict(fn='exp1', prec=prec, rnd=rnd, sign=sign, bc=bc, mag=mag)))
            # second order: log(1+t) = (t - t^2/2) + t^3/3 - ... with t - t^2/2 representable at the working precision (an instance
            # of the open finding F22 for t > 0 rounded up)
            obs.append((FE + 'near_point', dict(fn='log2', prec=24, rnd=rnd, sign=sign, bc=1, k=21)))
            # log-gamma next to the pole: -log|x| must mirror the mode
            obs.append((FE + 'loggamma_tiny', dict(prec=8, rnd=rnd, sign=sign)))
            # gamma next to its pole at 0 (x = +-2**-k, k symbolic in the regime of the pole shortcut)
            obs.append((FE + 'gamma_pole', dict(prec=10, rnd=rnd, sign=sign)))
            obs.append((FE + 'gamma_pole', dict(prec=3, rnd=rnd, sign=sign)))
            # atan2 for finite nonzero arguments relative to the contracts of its kernels
            for xs in (0, 1):
                obs.append((FE + 'atan2_directed', dict(prec=6, rnd=rnd, xsign=xs, ysign=sign)))
    return obs
