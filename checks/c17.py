"""C17 -- mathematical constants: cache and rounding wrapper (partial)."""
from vlib.oracle import RNDS
from checks import c02 as _c02

PROPERTY = 'C17'
LEVEL = 'other'
FC = 'checks.fam_cache:'
EXPLANATION = (
    "Bounded symbolic verification of the two layers every constant goes through, executed from /repo's source: the cache "
    "wrapper constant_memo.g and the rounding wrapper def_mpf_constant.f, for the real closures pi_fixed/ln2_fixed/... and "
    "mpf_pi/mpf_e/....  The fixed-point series routine behind them is replaced by its documented contract 'returns "
    "floor(C*2^q)' for ONE ARBITRARY real constant C in [1/4, 4), represented exactly for q <= 64 by a symbolic 66-bit integer "
    "c = floor(C*2^64) (so F(q) = c >> (64-q)).  Obligations, for every C, every valid cache state (memo_prec symbolic in 0..64 "
    "with memo_val = F(memo_prec), or empty) and each requested precision on a grid: the value returned by the cache equals "
    "F(prec) -- history independence --, the cache remains valid at every exit including when the series routine raises; the "
    "rounded constant is the correctly rounded p-bit value of C for floor/down/ceiling/up and for nearest unless the 20 guard "
    "bits are exactly the tie pattern 100..0 (probability 2^-20; cannot be resolved from a truncated value).  Whether pi_fixed, "
    "ln2_fixed, e_fixed ... meet the floor contract is real analysis of their series (Chudnovsky, Machin, Taylor, AGM) and is NOT "
    "covered: an accuracy defect inside a series routine is outside this check.  Context level (const_ctx): the constant objects "
    "mp.pi, mp.e, ... (class _constant of the current tree, on a fresh clone) are asked twice in sequence -- explicit call "
    "k(prec=p, rounding=r) or implicit use through the _mpf_ property at context precision p and rounding r -- with symbolic "
    "precisions p1, p2 in 1..2^20 and every pair of rounding modes; the libmp constant function behind the object is an "
    "arbitrary (uninterpreted) function of (precision, mode), and each answer must be that function's value for its OWN request "
    "(no state kept by the object may leak the earlier request's precision or mode into the later answer)."
)
TRUSTED = _c02.TRUSTED + ["idealised contract of the fixed-point constant routines: F(q) = floor(C * 2^q)"]
ASSUMPTIONS = ["requested precisions <= 44 bits (prec + 20 guard bits <= 64) for the rounding wrapper, <= 51 for the cache wrapper", "constant positive with magnitude ~ 1 (documented assumption of def_mpf_constant)"]
BUDGET = {'quick': dict(ob_deadline_s=60, total_s=120), 'thorough': dict(ob_deadline_s=300, total_s=900)}
BOUNDS = {'quick': 'cache: prec in {1,2,5,10,20,33,50}, states empty/filled(any memo_prec 0..64), with and without a failing series routine, 4 constants; rounding: prec in {1,2,3,10,24,40,44}, five modes, 4 constants; context objects: pi (thorough: pi, e, ln2, euler, catalan), 4 request-kind sequences x 25 mode pairs, precisions symbolic 1..2^20'}

CONSTS = [('pi_fixed', 'mpf_pi'), ('ln2_fixed', 'mpf_ln2'), ('e_fixed', 'mpf_e'), ('phi_fixed', 'mpf_phi'), ('ln10_fixed', 'mpf_ln10')]


def obligations(tier, seed=0):
    obs = []
    from mpmath.libmp import libelefun
    for fixed, rounded in CONSTS:
        if hasattr(libelefun, fixed):
            for prec in ((1, 2, 5, 10, 20, 33, 50) if tier != 'thorough' else (1, 2, 3, 4, 5, 7, 10, 13, 20, 21, 22, 30, 33, 40, 45, 50)):
                for state in ('empty', 'filled'):
                    for fault in (0, 1):
                        obs.append((FC + 'const_memo', dict(name=fixed, prec=prec, state=state, fault=fault)))
        if hasattr(libelefun, rounded):
            for prec in ((1, 2, 3, 10, 24, 40, 44) if tier != 'thorough' else (1, 2, 3, 4, 5, 8, 10, 16, 24, 32, 40, 41, 42, 43, 44)):
                for rnd in RNDS:
                    obs.append((FC + 'const_round', dict(name=rounded, prec=prec, rnd=rnd)))
    # the context-level constant objects: two requests in sequence, each must be served for its own precision and rounding mode
    for name in (('pi',) if tier != 'thorough' else ('pi', 'e', 'ln2', 'euler', 'catalan')):
        for via1, via2 in (('call', 'call'), ('call', 'use'), ('use', 'call'), ('use', 'use')):
            for r1 in RNDS:
                for r2 in RNDS:
                    obs.append((FC + 'const_ctx', dict(name=name, via1=via1, via2=via2, r1=r1, r2=r2)))
    return obs
