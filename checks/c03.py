"""C03 -- integer powers are never rounded past the exact value."""
from vlib.oracle import RNDS
from checks import c02 as _c02

PROPERTY = 'C03'
LEVEL = 'other'
FW = 'checks.fam_pow:'
EXPLANATION = (
    "Bounded symbolic verification of mpf_pow_int (and the ** operator with an int exponent) executed from /repo's source with a "
    "symbolic base mantissa, sign and exponent.  (a) exact path (bits*n < 1000): for n in {0,1,2,3,4,5,7} the result must be the "
    "canonical correctly rounded value of the exact power man^n (built from precise bit-vector products) in all five modes; "
    "special bases follow the float conventions.  (b) negative exponents: the result r is compared with 1/x^n by "
    "cross-multiplication (r * man^n vs 2^t): correct side for the four directed modes, within 2 ulp always.  (c) the directed "
    "binary-exponentiation loop is normally reached only when bits*n >= 1000, which no precise encoding can cover; it is "
    "exercised by a documented cut: the interpreter substitutes a lower value for the constant 1000 in mpf_pow_int (the loop body "
    "and everything else is the real source), with shapes chosen so that intermediate products are truncated to workprec "
    "(base longer than 2*workprec bits, exponent 9 with a 3-bit base at prec 1); obligations: canonical result, correct side for "
    "directed modes, within 2 ulp.  Counterexamples of (c) are replayed natively on the real source with the same constant "
    "replaced."
)
TRUSTED = _c02.TRUSTED + ["cut for the loop path: the exact-path threshold constant (1000) is lowered inside the interpreter; the claim for the loop is therefore about the loop code at small operand sizes"]
ASSUMPTIONS = ["base is a canonical finite mpf; exponent n concrete per obligation", "operand sign concrete per obligation for loop-path shapes"]
BUDGET = {'quick': dict(ob_deadline_s=160, total_s=175), 'thorough': dict(ob_deadline_s=600, total_s=1500)}
BOUNDS = {'quick': 'exact path: base mantissas 1..8 bits, n in -3..7; loop path (threshold lowered): (3-bit base, n=9, prec 1..2), (4-bit, n=5), (27-bit base, n=3, prec 1)'}


def obligations(tier, seed=0):
    obs = []
    thorough = tier == 'thorough'

    def add(fam, **kw):
        if thorough:
            kw['_t'] = 600
        obs.append((FW + fam, kw))
    # loop path first (slow obligations start early)
    for rnd, sign in [('u', 0), ('c', 0), ('f', 1), ('d', 0)] + ([('n', 0), ('c', 1), ('f', 0), ('u', 1)] if thorough else []):
        add('pow_int', bc=27, n=3, prec=1, rnd=rnd, limit=0, sign=sign, _t=100 if not thorough else 600)
    for rnd in RNDS:
        for sign in (0, 1):
            add('pow_int', bc=3, n=9, prec=1, rnd=rnd, limit=0, sign=sign)
            add('pow_int', bc=4, n=5, prec=2, rnd=rnd, limit=0, sign=sign)
        add('pow_int', bc=3, n=-9, prec=1, rnd=rnd, limit=0, sign=0)
    for bc, n, prec in [(4, 2, 3), (4, 3, 3), (3, 5, 4), (1, 7, 4), (4, 1, 3), (8, 2, 5), (2, 7, 3), (5, 4, 9), (6, 3, 24), (3, 0, 3)]:
        for rnd in RNDS:
            add('pow_int', bc=bc, n=n, prec=prec, rnd=rnd)
    for bc, n, prec in [(4, -1, 3), (3, -2, 3), (3, -3, 4), (1, -5, 3), (5, -2, 2), (2, -4, 5)]:
        for rnd in RNDS:
            add('pow_int', bc=bc, n=n, prec=prec, rnd=rnd)
    add('pow_int', bc=4, n=3, prec=3, rnd='n', entry='op')
    add('pow_int', bc=4, n=-2, prec=3, rnd='n', entry='op')
    add('pow_int', bc=5, n=2, prec=3, rnd='n', entry='op')
    # the general power with an integer-valued mpf exponent (x ** mpf(n), x ** -3.0, mp.power): same obligations as the int route;
    # negative exponents with powers longer than prec + 10 bits and directed modes (reciprocal rounding of the intermediate)
    for rnd in 'fcdu':
        add('pow_int', bc=12, n=-3, prec=2, rnd=rnd, entry='powf')
        add('pow_int', bc=14, n=-2, prec=3, rnd=rnd, entry='powf')
    for n in (0, 1, 2, 3, -1):
        add('pow_int', bc=5, n=n, prec=4, rnd='n', entry='powf')
    # exponents with more significant bits than the working precision (the int must not be rounded on its way to the kernel)
    add('pow_int', bc=3, n=9, prec=3, rnd='n', entry='op')
    add('pow_int', bc=2, n=5, prec=2, rnd='n', entry='op')
    add('pow_int', bc=3, n=-5, prec=2, rnd='n', entry='op')
    for a in ('zero', 'inf', 'ninf', 'nan'):
        for n in (0, 1, 2, 3, -1, -2, -3):
            if a == 'zero' and n < 0:
                continue
            add('pow_special', a=a, n=n)
    if thorough:
        for rnd in RNDS:
            add('pow_int', bc=5, n=6, prec=3, rnd=rnd, limit=0, sign=0)
            add('pow_int', bc=12, n=3, prec=8, rnd=rnd)
            add('pow_int', bc=3, n=17, prec=2, rnd=rnd, limit=0, sign=1)
    return obs
