"""Families for fsum / fdot / mpf_sum (C02): exact accumulation then one rounding."""
from fractions import Fraction

import z3

from pysym import values as V
from pysym.values import G, SInt, zt, Unsupported
from vlib.ob import Ob, add
from vlib import oracle as O
from vlib.oracle import B, ref_round, canonical, is_tuple, value_matches, FZERO
from checks.fam_arith import finish, wbump, mk_tuple, libmpf, FALSE, TRUE, _ctx, aspect_good


def _terms(ob, p):
    """k regular nonzero terms; term i has bit length bcs[i] and exponent base + offs[i] (base symbolic, |base| <= 2^30)"""
    bcs, offs = p['bcs'], p['offs']
    E = p.get('E') or (1 << 30)
    regime = p.get('regime')
    mep = p['prec'] * 2 or 1000000
    if regime == 'neg':          # every term has a negative exponent (the usual case for non-integers)
        base = ob.int('base', -E, -1 - max(offs))
    elif regime == 'big':        # every exponent beyond the "much larger than the running sum" guard
        base = ob.int('base', mep + 1 - min(offs), max(E, mep + 100))
    elif regime == 'mid':        # exponents around the running sum's initial exponent 0 and the guard
        base = ob.int('base', -min(offs) - 3, min(mep, 64) + 3 - min(offs))
    else:
        base = ob.int('base', -E, E)
    xs = []
    for i, (bc, off) in enumerate(zip(bcs, offs)):
        xs.append(ob.mpf('x%d' % i, bc, exp=add(base, off)))
    return base, xs


def _signed(x, absolute=False):
    m = zt(x[1])
    if absolute:
        return m
    return z3.If(zt(x[0]) == B(1), -m, m)


def msum(p):
    """mpf_sum(xs, prec, rnd[, absolute]) / mp.fsum(list of mpf) / mp.fdot(pairs): the result is the textbook rounding of the
    exact sum (of products) -- `prec` 0 means exact.  Shape: bit lengths and exponent offsets concrete, mantissa bits, signs
    and the base exponent symbolic.  For 'fdot' every term is a pair; bcs2/offs2 describe the second factors."""
    bcs, offs, prec, rnd = p['bcs'], p['offs'], p['prec'], p['rnd']
    entry = p.get('entry', 'libmp')
    absolute = p.get('absolute', False)
    k = len(bcs)
    lo = min(offs)
    if entry == 'fdot':
        bcs2, offs2 = p['bcs2'], p['offs2']
        tops = [bcs[i] + bcs2[i] + offs[i] + offs2[i] for i in range(k)]
        lo = min(offs[i] + offs2[i] for i in range(k))
    else:
        tops = [bcs[i] + offs[i] for i in range(k)]
    top = max(tops) - lo + k.bit_length() + 1
    ob = Ob(wbump(p, top + 2 * max(prec, 8) + 70), timeout_s=p.get('_t', 60), mul_precise_bits=64)
    base, xs = _terms(ob, p)
    L = libmpf()
    if entry == 'libmp':
        args = [list(xs), prec, rnd] + ([True] if absolute else [])
        outs = ob.run(L.mpf_sum, args)
        unwrap = lambda v, st: v
        X = None
        for i, x in enumerate(xs):
            t = _signed(x, absolute) << (offs[i] - lo)
            X = t if X is None else X + t
        obase = zt(base) + B(lo)
    else:
        if rnd != 'n' or not prec:
            raise Unsupported('fsum/fdot use the context precision and rounding (nearest)')
        mp = _ctx(prec)
        cls = mp.mpf
        if entry == 'fsum':
            kw = {}
            if absolute:
                kw['absolute'] = True
            outs = ob.run(mp.fsum, [[mp.make_mpf(x) for x in xs]], kw)
            X = None
            for i, x in enumerate(xs):
                t = _signed(x, absolute) << (offs[i] - lo)
                X = t if X is None else X + t
            obase = zt(base) + B(lo)
        elif entry == 'fdot':
            ys = [ob.mpf('y%d' % i, p['bcs2'][i], exp=p['offs2'][i]) for i in range(k)]
            outs = ob.run(mp.fdot, [[(mp.make_mpf(x), mp.make_mpf(y)) for x, y in zip(xs, ys)]])
            X = None
            for i, (x, y) in enumerate(zip(xs, ys)):
                pr = zt(V.sym_mul(x[1], y[1]))
                neg = (zt(x[0]) ^ zt(y[0])) == B(1)
                t = z3.If(neg, -pr, pr) << (offs[i] + p['offs2'][i] - lo)
                X = t if X is None else X + t
            obase = zt(base) + B(lo)
        else:
            raise Unsupported('entry ' + entry)

        def unwrap(v, st):
            if not isinstance(v, cls):
                return None
            h = st.heap.get((id(v), '_mpf_'))
            return h[1] if h is not None else v._mpf_
    A = z3.If(X < 0, -X, X)

    def good(val, st):
        val = unwrap(val, st)
        if val is None:
            return False

        def full():
            R = ref_round(A, FALSE, prec, rnd, X < 0, 1, top) if prec else A
            return z3.If(X == B(0), is_tuple(val, FZERO), value_matches(val, X < 0, R, obase, top + 1, prec or None))
        return aspect_good(p.get('aspect', 'round'), val, prec, full)
    return finish(ob, ob.prove(outs, good))


REGIMES = ('neg', 'big', 'mid')


def msum_concrete(p, m):
    L = libmpf()
    bcs, offs, prec, rnd = p['bcs'], p['offs'], p['prec'], p['rnd']
    entry = p.get('entry', 'libmp')
    absolute = p.get('absolute', False)
    base = m.get('base', 0)
    xs = [mk_tuple(m, 'x%d' % i, bcs[i], exp=base + offs[i]) for i in range(len(bcs))]
    E0 = base + min(offs)
    if entry == 'libmp':
        r = L.mpf_sum(list(xs), prec, rnd, absolute)
        exact = sum((abs(O.frac_of(x, E0)) if absolute else O.frac_of(x, E0)) for x in xs)
    else:
        mp = _ctx(prec)
        try:
            if entry == 'fsum':
                r = mp.fsum([mp.make_mpf(x) for x in xs], absolute=absolute)._mpf_
                exact = sum((abs(O.frac_of(x, E0)) if absolute else O.frac_of(x, E0)) for x in xs)
            else:
                ys = [mk_tuple(m, 'y%d' % i, p['bcs2'][i], exp=p['offs2'][i]) for i in range(len(bcs))]
                E0 = base + min(offs[i] + p['offs2'][i] for i in range(len(bcs)))
                r = mp.fdot([(mp.make_mpf(x), mp.make_mpf(y)) for x, y in zip(xs, ys)])._mpf_
                exact = sum(O.frac_of(x, E0) * O.frac_of(y, 0) for x, y in zip(xs, ys))
        finally:
            mp.prec = 53
    if exact == 0:
        return tuple(r) == FZERO, 'exact sum is zero, got %r' % (r,)
    return O.check_rounded(r, exact, prec, rnd, shift=E0)


# ------------------------------------------------------------------------------ mixed operand types through the operators
def _mixed_operands(ob, p):
    sbc, ybc = p['sbc'], p['ybc']
    x = ob.mpf('x', sbc, exp=p['sexp'])
    ya = ob.int('y_abs', 1 << (ybc - 1), (1 << ybc) - 1) if ybc > 1 else 1
    if p['kind'] == 'int':
        yneg = ob.bit('y_neg')
        other, yexp = V.merge(zt(yneg) == B(1), V.neg(ya), ya), 0
    else:
        from pysym.models import SFloat
        yexp = p['yexp']
        yneg = 1 if p.get('yneg') else 0          # the float model needs a mantissa of fixed bit length: sign is part of the shape
        other = SFloat(V.neg(ya) if yneg else ya, yexp)
    return x, ya, yneg, other, yexp


def mixed(p):
    """x <op> other and other <op> x for an mpf x and a Python int / float `other` (operators generated by binary_op and the
    hand-written reflected methods): the result is the correctly rounded exact value at the context precision (nearest).
    Shape: bit lengths and both exponents concrete; mantissa bits and both signs symbolic."""
    import operator
    op, sbc, ybc, prec, refl = p['op'], p['sbc'], p['ybc'], p['prec'], p.get('refl', False)
    sexp = p['sexp']
    rnd = 'n'
    k = max(prec + 3 - ((ybc - sbc) if refl else (sbc - ybc)), 0) + 2 if op == '/' else 0
    top = max(sbc + max(sexp, 0) + abs(p.get('yexp', 0)), ybc + max(-sexp, 0) + abs(p.get('yexp', 0))) + 2
    from pysym import mpmodels
    ob = Ob(wbump(p, max(top, sbc + ybc + k) + 2 * prec + 70), timeout_s=p.get('_t', 60), mul_precise_bits=128,
            models=mpmodels.mp_models(contract_divmod=True, contract_sqrt=False))
    G.stats['DIV_PRECISE_BITS'] = 4096
    x, ya, yneg, other, yexp = _mixed_operands(ob, p)
    mp = _ctx(prec)
    cls = mp.mpf
    X = mp.make_mpf(x)
    meth = {('+', False): '__add__', ('-', False): '__sub__', ('*', False): '__mul__', ('/', False): '__truediv__',
            ('+', True): '__radd__', ('-', True): '__rsub__', ('*', True): '__rmul__', ('/', True): '__rtruediv__'}[(op, refl)]
    outs = ob.run(getattr(cls, meth), [X, other])
    sm, ym = zt(x[1]), zt(ya)
    xneg, yn = zt(x[0]) == B(1), zt(yneg) == B(1)
    if op in '+-':
        lo = min(sexp, yexp)
        S, Y = sm << (sexp - lo), ym << (yexp - lo)
        sx, sy = z3.If(xneg, -S, S), z3.If(yn, -Y, Y)
        if op == '+':
            Xv = sx + sy
        else:
            Xv = (sy - sx) if refl else (sx - sy)
        A, neg, sticky, base = z3.If(Xv < 0, -Xv, Xv), Xv < 0, FALSE, B(lo)
        blo, bhi = 1, max(sbc + sexp - lo, ybc + yexp - lo) + 1
        zero = Xv == B(0)
    elif op == '*':
        A = V.narrow_mul(sm, ym, (0, (1 << sbc) - 1), (0, (1 << ybc) - 1))
        neg, sticky, base = z3.Xor(xneg, yn), FALSE, B(sexp + yexp)
        blo, bhi = sbc + ybc - 1, sbc + ybc
        zero = FALSE
    else:
        num, den, nb, db = (ym, sm, ybc, sbc) if refl else (sm, ym, sbc, ybc)
        N = num << k
        A = z3.UDiv(N, den)
        sticky = z3.URem(N, den) != B(0)
        neg = z3.Xor(xneg, yn)
        base = B((yexp - sexp if refl else sexp - yexp) - k)
        blo, bhi = nb + k - db, nb + k - db + 1
        zero = FALSE

    def good(val, st):
        if not isinstance(val, cls):
            return False
        h = st.heap.get((id(val), '_mpf_'))
        val = h[1] if h is not None else val._mpf_
        R = ref_round(A, sticky, prec, rnd, neg, blo, bhi)
        return z3.If(zero, is_tuple(val, FZERO), value_matches(val, neg, R, base, bhi + 3, prec))
    return finish(ob, ob.prove(outs, good))


def mixed_concrete(p, m):
    import operator
    op, sbc, ybc, prec, refl = p['op'], p['sbc'], p['ybc'], p['prec'], p.get('refl', False)
    x = mk_tuple(m, 'x', sbc, exp=p['sexp'])
    ya = 1 if ybc == 1 else m['y_abs']
    y = -ya if (m.get('y_neg') if p['kind'] == 'int' else p.get('yneg')) else ya
    if p['kind'] == 'float':
        import math
        yf = math.ldexp(y, p['yexp'])
        if Fraction(yf) != Fraction(y) * Fraction(2) ** p['yexp']:
            return True, 'model value is not a double'
        other, yv = yf, Fraction(yf)
    else:
        other, yv = y, Fraction(y)
    mp = _ctx(prec)
    f = {'+': operator.add, '-': operator.sub, '*': operator.mul, '/': operator.truediv}[op]
    try:
        X = mp.make_mpf(x)
        r = (f(other, X) if refl else f(X, other))._mpf_
    finally:
        mp.prec = 53
    xv = O.frac_of(x, 0)
    exact = f(yv, xv) if refl else f(xv, yv)
    if exact == 0:
        return tuple(r) == FZERO, 'exact result is zero, got %r' % (r,)
    return O.check_rounded(r, exact, prec, 'n')


# ------------------------------------------------------------------------------ conversion of rationals (Fraction / mpq) to mpf
def convert_mpq(p):
    """mp.convert(x) / mpmathify(x) for a rational x = P/Q (an mpq object with symbolic numerator and denominator; Fractions
    are turned into one by the same function): the correctly rounded quotient at the context precision, to nearest"""
    import mpmath
    from mpmath import rational
    from pysym import mpmodels
    pbc, qbc, prec = p['pbc'], p['qbc'], p['prec']
    k = max(prec + 3 - (pbc - qbc), 0) + 2
    ob = Ob(wbump(p, pbc + qbc + k + 2 * prec + 70), timeout_s=p.get('_t', 60), mul_precise_bits=128,
            models=mpmodels.mp_models(contract_divmod=True, contract_sqrt=False))
    G.stats['DIV_PRECISE_BITS'] = 4096
    Pa = ob.int('P_abs', 1 << (pbc - 1), (1 << pbc) - 1) if pbc > 1 else 1
    Pn = ob.bit('P_neg')
    P = V.merge(zt(Pn) == B(1), V.neg(Pa), Pa)
    Q = ob.int('Q', 1 << (qbc - 1), (1 << qbc) - 1) if qbc > 1 else 1
    mp = _ctx(prec)
    x = object.__new__(rational.mpq)
    x._mpq_ = (P, Q)
    outs = ob.run(mp.convert, [x])
    N = zt(Pa) << k
    A = z3.UDiv(N, zt(Q))
    sticky = z3.URem(N, zt(Q)) != B(0)
    neg = zt(Pn) == B(1)
    cls = mp.mpf

    def good(val, st):
        if not isinstance(val, cls):
            return False
        h = st.heap.get((id(val), '_mpf_'))
        val = h[1] if h is not None else val._mpf_
        R = ref_round(A, sticky, prec, 'n', neg, pbc + k - qbc, pbc + k - qbc + 1)
        return value_matches(val, neg, R, B(-k), pbc + k - qbc + 4, prec)
    return finish(ob, ob.prove(outs, good))


def convert_mpq_concrete(p, m):
    from fractions import Fraction as Fr
    pbc, qbc, prec = p['pbc'], p['qbc'], p['prec']
    Pa = 1 if pbc == 1 else m['P_abs']
    P = -Pa if m.get('P_neg') else Pa
    Q = 1 if qbc == 1 else m['Q']
    mp = _ctx(prec)
    try:
        r = mp.convert(Fr(P, Q))._mpf_
        r2 = (mp.mpf(1) * 0 + Fr(P, Q))._mpf_            # the mixed-operand route goes through the same conversion
    finally:
        mp.prec = 53
    ok, d = O.check_rounded(r, Fr(P, Q), prec, 'n')
    if ok:
        ok, d = O.check_rounded(r2, Fr(P, Q), prec, 'n')
        d = 'mpf(0) + Fraction: ' + d
    return ok, 'mpmathify(Fraction(%d, %d)) at %d bits: %s' % (P, Q, prec, d)
