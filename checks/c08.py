"""C08 -- printed numbers are nearest decimal approximations (numeric core of to_str)."""
from checks import c02 as _c02

PROPERTY = 'C08'
LEVEL = 'other'
FS = 'checks.fam_str:'
EXPLANATION = (
    "Bounded symbolic verification of to_str / to_digits_exp (the code behind str(), nstr() and repr()) executed from /repo's "
    "source on x = +-man*2^exp with a symbolic mantissa and a concrete exponent, through a symbolic decimal-string model: "
    "str(int) of a symbolic integer yields a string of concrete length whose characters are symbolic digits (digit i = "
    "(n div 10^k) mod 10, forked on the number of digits), and the engine executes the real slicing, digit comparison "
    "('in \"56789\"'), carry loop over trailing 9s, concatenation, fixed/exponent formatting and rstrip('0') on it.  For every "
    "path the harness evaluates the printed literal (sign, digits with their decimal weights, exponent) and the solver decides "
    "that it has at most dps significant digits, the right sign, and that |x - printed| <= 1/2 unit of the dps-th significant "
    "digit, i.e. the printed value is a nearest dps-digit decimal (either neighbour on an exact tie), for ALL mantissas of the "
    "shape -- including mantissas far longer than the printing precision (where defect F6 was).  The round-trip half of the "
    "property is covered on the reader side by C07 (correct rounding of the parser, and the (1/2+1/32)-ulp bound in its "
    "approximate branch).  Special values, min_fixed/max_fixed/strip_zeros options other than the defaults, and |exponent| > "
    "3500 (ln2/ln10 based scaling) are outside."
)
TRUSTED = _c02.TRUSTED + ["symbolic decimal-string model of str(int), slicing, concatenation, rstrip('0'), digit comparisons (pysym/strings.py)"]
ASSUMPTIONS = ["binary exponent and sign concrete per obligation; digit count dps concrete"]
BUDGET = {'quick': dict(ob_deadline_s=120, total_s=165), 'thorough': dict(ob_deadline_s=600, total_s=1500)}
BOUNDS = {'quick': 'mantissas 1..12 bits at exponents -30..20, and 40..60-bit mantissas (longer than the printing precision) near unit magnitude; dps 1..5; options strip_zeros / min_fixed / max_fixed / show_zero_exponent on five shapes; special values'}


def obligations(tier, seed=0):
    obs = []
    thorough = tier == 'thorough'

    def add(**kw):
        if thorough:
            kw['_t'] = 600
        obs.append((FS + 'to_str_num', kw))
    # mantissa longer than the printing precision first (slowest)
    for bc, exp, dps in [(60, -59, 2), (50, -52, 2), (45, -40, 1), (56, -50, 2)]:
        for sign in (0, 1):
            add(bc=bc, exp=exp, dps=dps, sign=sign, _t=100 if not thorough else 600)
    for bc, exp in [(1, 0), (3, 0), (5, -2), (5, 0), (8, -10), (10, 3), (4, -30), (12, 20), (7, -7), (9, 10), (6, -20), (2, 13)]:
        for dps in (1, 2, 3, 5):
            add(bc=bc, exp=exp, dps=dps, sign=(bc + dps) % 2)
    # formatting options: the value claim is unchanged; plus forced fixed-point has no exponent, show_zero_exponent always has one,
    # strip_zeros=False shows at least dps digits
    big = 10 ** 6
    for bc, exp, dps in [(8, -10, 3), (5, 0, 2), (12, 20, 3), (4, -30, 2), (9, 10, 5)]:
        add(bc=bc, exp=exp, dps=dps, sign=bc % 2, opts=dict(strip_zeros=False), fmt='full')
        add(bc=bc, exp=exp, dps=dps, sign=dps % 2, opts=dict(min_fixed=-big, max_fixed=big), fmt='fixed')
        add(bc=bc, exp=exp, dps=dps, sign=0, opts=dict(min_fixed=0, max_fixed=0))
        add(bc=bc, exp=exp, dps=dps, sign=1, opts=dict(show_zero_exponent=True), fmt='exp0')
    # the parsing half of the round trip for |decimal exponent| > 400 (the approximate branch of from_str, reached through the
    # lowered-threshold cut of C07): to nearest it must stay within (1/2 + 1/32) ulp, or repr() would not parse back
    for mbits, E, prec in [(20, 8, 2), (20, -8, 2), (12, 9, 3), (30, -9, 2)]:
        for mneg in (0, 1):
            obs.append((FS + 'from_str_num', dict(mbits=mbits, E=E, prec=prec, rnd='n', mneg=mneg, limit=5, roundtrip=True)))
    # repr prints enough digits for the round trip (with nearest printing, here, and nearest parsing, C07)
    obs.append((FS + 'lemma_repr_digits', {}))
    for kind in ('zero', 'inf', 'ninf', 'nan'):
        for dps in (0, 1, 15):
            obs.append((FS + 'to_str_special', dict(kind=kind, dps=dps)))
        obs.append((FS + 'to_str_special', dict(kind=kind, dps=5, opts=dict(show_zero_exponent=True))))
    if thorough:
        for bc, exp, dps in [(70, -69, 3), (80, -75, 4), (53, -52, 15), (24, -20, 6), (64, 30, 5)]:
            add(bc=bc, exp=exp, dps=dps, sign=0)
    return obs
