"""Obligation families for the real arithmetic kernels (libmpf) and their API routes.

Every family function takes a params dict (a concrete *shape*) and decides, by one or a few
SMT queries over the symbolically executed /repo source, the property for all mantissas,
signs and base exponents of that shape.  `aspect` selects what is asserted:
  'round'  correct rounding + canonical form + bc <= prec   (C02, C06 ...)
  'canon'  canonical form only                               (C01)
  'bits'   at most prec bits only                            (C10)
Each family has a `<name>_concrete(params, model)` twin: plain CPython execution of the real
function on the concrete counterexample with a fractions.Fraction oracle (replay).
"""
import operator
from fractions import Fraction

import z3

from pysym import values as V
from pysym.values import G, SInt, SBool, bvv, zt, binop, Unsupported
from pysym.engine import NORMAL, RAISE
from pysym import mpmodels
from vlib.ob import Ob, add, sub
from vlib import oracle as O
from vlib.oracle import B, ref_round, canonical, is_tuple, value_matches, FZERO, FNAN, FINF, FNINF

FALSE = z3.BoolVal(False)
TRUE = z3.BoolVal(True)
E30 = 1 << 30


def finish(ob, res):
    st = ob.stats()
    st['extra'] = {k: v for k, v in st['extra'].items() if not k.startswith('_') and isinstance(v, (int, float, str))}
    res['stats'] = st
    return res


def wbump(p, W):
    return int(W * (1.6 ** p.get('_wbump', 0)))


def aspect_good(aspect, val, p, full):
    """full(): the complete correctness predicate (built lazily)"""
    if aspect == 'round':
        return full()
    # 'canon' (C01): canonical encoding only -- zero/special or odd mantissa with its exact bit count; whether the mantissa also fits
    # the requested precision is the subject of 'bits' (C10) and 'round' (C02), not of C01
    nz = canonical(val, p if (aspect == 'bits' and p) else None)
    return z3.Or(is_tuple(val, FZERO), nz)


def mget(model, name, default=None):
    return model.get(name, default)


def mk_tuple(model, name, bc, exp=None, sign=None):
    man = 1 if bc == 1 else model[name + '_man']
    s = model.get(name + '_sign', 0) if sign is None else sign
    e = model.get(name + '_exp', 0) if exp is None else exp
    return (s, man, e, bc)


def libmpf():
    from mpmath.libmp import libmpf as L
    return L


# ------------------------------------------------------------------------------ normalize
def normalize(p):
    bc, prec, rnd, which = p['bc'], p['prec'], p['rnd'], p.get('which', '_normalize')
    ob = Ob(wbump(p, bc + 48), timeout_s=p.get('_t', 60))
    odd = which == '_normalize1'
    man = ob.man('man', bc, odd=odd)
    sign = ob.bit('sign')
    exp = ob.int('exp', -E30, E30)
    outs = ob.run(getattr(libmpf(), which), [sign, man, exp, bc, prec, rnd])
    neg = zt(sign) == B(1)

    def good(val, st):
        def full():
            R = ref_round(zt(man), FALSE, prec, rnd, neg, bc, bc)
            return value_matches(val, neg, R, zt(exp), bc + 1, prec)
        return aspect_good(p.get('aspect', 'round'), val, prec, full)
    return finish(ob, ob.prove(outs, good))


def normalize_concrete(p, m):
    L = libmpf()
    bc, prec, rnd = p['bc'], p['prec'], p['rnd']
    man = 1 if bc == 1 else m['man']
    r = getattr(L, p.get('which', '_normalize'))(m['sign'], man, m['exp'], bc, prec, rnd)
    exact = Fraction(man) * (-1 if m['sign'] else 1)
    return O.check_rounded(r, exact, prec, rnd, shift=m['exp'])


# ------------------------------------------------------------------------------ add / sub
def _exact_sum(s, t, off, subtract):
    sm, tm = zt(s[1]), zt(t[1])
    if off >= 0:
        S, T, base = sm << off, tm, zt(t[2])
    else:
        S, T, base = sm, tm << (-off), zt(s[2])
    tneg = (zt(t[0]) == B(1))
    if subtract:
        tneg = z3.Not(tneg)
    X = z3.If(zt(s[0]) == B(1), -S, S) + z3.If(tneg, -T, T)
    return X, base


def addsub(p):
    sbc, tbc, off, prec, rnd = p['sbc'], p['tbc'], p['off'], p['prec'], p['rnd']
    subtract = p.get('sub', False)
    top = max(sbc + max(off, 0), tbc + max(-off, 0)) + 2
    ob = Ob(wbump(p, top + max(prec, 0) + 56), timeout_s=p.get('_t', 60))
    t = ob.mpf('t', tbc)
    s = ob.mpf('s', sbc, exp=add(t[2], off))
    L = libmpf()
    entry = p.get('entry', 'libmp')
    if entry == 'libmp':
        outs = ob.run(L.mpf_sub if subtract else L.mpf_add, [s, t, prec, rnd])
        unwrap = lambda v, st: v
    else:
        outs, unwrap = _api_binary(ob, entry, '-' if subtract else '+', s, t, prec, rnd)
    X, base = _exact_sum(s, t, off, subtract)
    A = z3.If(X < 0, -X, X)

    def good(val, st):
        val = unwrap(val, st)
        if val is None:
            return False

        def full():
            if prec:
                # bit length of |s+t|: without cancellation (leading bits >= 2 apart) it is within one of the larger top
                stop, ttop = sbc + max(off, 0), tbc + max(-off, 0)
                bl_lo = max(stop, ttop) - 1 if abs(stop - ttop) >= 2 else 1
                R = ref_round(A, FALSE, prec, rnd, X < 0, bl_lo, max(stop, ttop) + 1)
            else:
                R = A
            return z3.If(X == B(0), is_tuple(val, FZERO), value_matches(val, X < 0, R, base, top + 1, prec or None))
        return aspect_good(p.get('aspect', 'round'), val, prec, full)
    return finish(ob, ob.prove(outs, good))


def addsub_concrete(p, m):
    L = libmpf()
    sbc, tbc, off, prec, rnd = p['sbc'], p['tbc'], p['off'], p['prec'], p['rnd']
    t = mk_tuple(m, 't', tbc)
    s = mk_tuple(m, 's', sbc, exp=t[2] + off)
    entry = p.get('entry', 'libmp')
    if entry == 'libmp':
        r = (L.mpf_sub if p.get('sub') else L.mpf_add)(s, t, prec, rnd)
    else:
        r = _api_binary_concrete(entry, '-' if p.get('sub') else '+', s, t, prec, rnd)
    E0 = min(s[2], t[2])
    exact = O.frac_of(s, E0) - O.frac_of(t, E0) if p.get('sub') else O.frac_of(s, E0) + O.frac_of(t, E0)
    return O.check_rounded(r, exact, prec, rnd, shift=E0)


# ------------------------------------------------------------------------------ API routes
def _ctx(prec):
    import mpmath
    mp = mpmath.mp
    mp.prec = prec if prec else 53
    return mp


def _api_binary(ob, entry, op, s, t, prec, rnd):
    """entry: 'op' (operator on two mpf objects, rounding must be 'n'), 'rop' (reflected), 'f' (fadd/fsub/fmul/fdiv with
    prec=/rounding= keywords; prec 0 -> exact=True), 'fdps' ...  Returns (outs, unwrap)."""
    import mpmath
    mp = _ctx(prec if entry in ('op', 'rop', 'fmod') else 53)
    x = mp.make_mpf(s)
    y = mp.make_mpf(t)
    cls = mp.mpf
    if entry == 'op':
        if rnd != 'n' or not prec:
            raise Unsupported('operator entry uses the context rounding (nearest) and precision')
        meth = {'+': '__add__', '-': '__sub__', '*': '__mul__', '/': '__truediv__', '%': '__mod__'}[op]
        outs = ob.run(getattr(cls, meth), [x, y])
    elif entry == 'rop':
        meth = {'+': '__radd__', '-': '__rsub__', '*': '__rmul__', '/': '__rtruediv__', '%': '__rmod__'}[op]
        outs = ob.run(getattr(cls, meth), [y, x])
    elif entry in ('f', 'fx'):
        fn = {'+': mp.fadd, '-': mp.fsub, '*': mp.fmul, '/': mp.fdiv}[op]
        kw = dict(prec=prec, rounding=rnd) if prec else dict(exact=True)
        if entry == 'fx':
            # exact=False spelled out: must behave exactly like leaving the keyword away
            kw = dict(kw, exact=False) if prec else dict(exact=False)
            if not prec:
                raise Unsupported('fx needs a precision')
        outs = ob.run(fn, [x, y], kw)
    elif entry == 'fmod':
        if rnd != 'n' or not prec or op != '%':
            raise Unsupported('fmod uses the context rounding (nearest) and precision')
        outs = ob.run(mp.fmod, [x, y])
    else:
        raise Unsupported('entry ' + entry)

    def unwrap(v, st):
        if not isinstance(v, cls):
            return None
        h = st.heap.get((id(v), '_mpf_'))
        if h is not None:
            return h[1]
        return v._mpf_
    return outs, unwrap


def _api_binary_concrete(entry, op, s, t, prec, rnd):
    import mpmath
    mp = _ctx(prec if entry in ('op', 'rop', 'fmod') else 53)
    x, y = mp.make_mpf(s), mp.make_mpf(t)
    try:
        if entry == 'fmod':
            r = mp.fmod(x, y)
        elif entry in ('op', 'rop'):
            r = {'+': operator.add, '-': operator.sub, '*': operator.mul, '/': operator.truediv, '%': operator.mod}[op](x, y)
        else:
            fn = {'+': mp.fadd, '-': mp.fsub, '*': mp.fmul, '/': mp.fdiv}[op]
            kw = dict(prec=prec, rounding=rnd) if prec else dict(exact=True)
            if entry == 'fx':
                kw['exact'] = False
            r = fn(x, y, **kw)
    finally:
        mp.prec = 53
    return r._mpf_


# ------------------------------------------------------------------------------ mul
def mul(p):
    sbc, tbc, prec, rnd = p['sbc'], p['tbc'], p['prec'], p['rnd']
    which = p.get('which', 'mpf_mul')
    precise = p.get('precise', sbc + tbc <= 24)
    ob = Ob(wbump(p, sbc + tbc + 56), timeout_s=p.get('_t', 60), mul_precise_bits=(64 if precise else 0))
    s = ob.mpf('s', sbc)
    t = ob.mpf('t', tbc)
    L = libmpf()
    entry = p.get('entry', 'libmp')
    if entry == 'libmp':
        outs = ob.run(getattr(L, which), [s, t, prec, rnd])
        unwrap = lambda v, st: v
    else:
        outs, unwrap = _api_binary(ob, entry, '*', s, t, prec, rnd)
    prod = zt(V.sym_mul(s[1], t[1]))
    neg = (zt(s[0]) ^ zt(t[0])) == B(1)
    base = zt(s[2]) + zt(t[2])

    def good(val, st):
        val = unwrap(val, st)
        if val is None:
            return False

        def full():
            R = ref_round(prod, FALSE, prec, rnd, neg, sbc + tbc - 1, sbc + tbc) if prec else prod
            return value_matches(val, neg, R, base, sbc + tbc + 1, prec or None)
        return aspect_good(p.get('aspect', 'round'), val, prec, full)
    return finish(ob, ob.prove(outs, good))


def mul_concrete(p, m):
    L = libmpf()
    s = mk_tuple(m, 's', p['sbc'])
    t = mk_tuple(m, 't', p['tbc'])
    entry = p.get('entry', 'libmp')
    if entry == 'libmp':
        r = getattr(L, p.get('which', 'mpf_mul'))(s, t, p['prec'], p['rnd'])
    else:
        r = _api_binary_concrete(entry, '*', s, t, p['prec'], p['rnd'])
    return O.check_rounded(r, O.frac_of(s, s[2]) * O.frac_of(t, t[2]), p['prec'], p['rnd'], shift=s[2] + t[2])


def mul_int(p):
    """mpf_mul_int(s, n): n symbolic integer with |n| of nbc bits (sign symbolic)"""
    sbc, nbc, prec, rnd = p['sbc'], p['nbc'], p['prec'], p['rnd']
    which = p.get('which', 'mpf_mul_int')
    precise = p.get('precise', sbc + nbc <= 24)
    ob = Ob(wbump(p, sbc + nbc + 56), timeout_s=p.get('_t', 60), mul_precise_bits=(64 if precise else 0))
    s = ob.mpf('s', sbc)
    na = ob.int('n_abs', 1 << (nbc - 1), (1 << nbc) - 1) if nbc > 1 else 1
    nneg = 1 if p.get('nneg') else 0       # sign of n is part of the shape (keeps intervals tight)
    n = V.neg(na) if nneg else na
    L = libmpf()
    outs = ob.run(getattr(L, which), [s, n, prec, rnd])
    neg = (zt(s[0]) ^ B(nneg)) == B(1)

    def good(val, st):
        def full():
            # product of the mantissa with |n|: the engine formed the same operand pair
            pr = zt(V.sym_mul(s[1], na))
            R = ref_round(pr, FALSE, prec, rnd, neg, sbc + nbc - 1, sbc + nbc)
            return value_matches(val, neg, R, zt(s[2]), sbc + nbc + 1, prec)
        return aspect_good(p.get('aspect', 'round'), val, prec, full)
    return finish(ob, ob.prove(outs, good))


def mul_int_concrete(p, m):
    L = libmpf()
    s = mk_tuple(m, 's', p['sbc'])
    na = 1 if p['nbc'] == 1 else m['n_abs']
    n = -na if p.get('nneg') else na
    r = getattr(L, p.get('which', 'mpf_mul_int'))(s, n, p['prec'], p['rnd'])
    return O.check_rounded(r, O.frac_of(s, s[2]) * n, p['prec'], p['rnd'], shift=s[2])


# ------------------------------------------------------------------------------ div
def div(p):
    sbc, tbc, prec, rnd = p['sbc'], p['tbc'], p['prec'], p['rnd']
    extra = max(prec - sbc + tbc + 5, 5)
    precise = p.get('precise', sbc + extra <= 40)
    ob = Ob(wbump(p, sbc + extra + 60), timeout_s=p.get('_t', 60), models=mpmodels.mp_models(contract_divmod=True, contract_sqrt=False))
    G.stats['DIV_PRECISE_BITS'] = 4096 if precise else 0
    s = ob.mpf('s', sbc)
    t = ob.mpf('t', tbc)
    L = libmpf()
    entry = p.get('entry', 'libmp')
    if entry == 'libmp':
        outs = ob.run(L.mpf_div, [s, t, prec, rnd])
        unwrap = lambda v, st: v
    else:
        outs, unwrap = _api_binary(ob, entry, '/', s, t, prec, rnd)
    neg = (zt(s[0]) ^ zt(t[0])) == B(1)
    # reference: quotient with at least prec+2 bits (independent choice of scaling) and sticky
    if tbc == 1:
        q, sticky, k = zt(s[1]), FALSE, 0
        qlo, qhi = sbc, sbc
    else:
        k = max(prec + 3 - (sbc - tbc), 0) + 2
        if precise:
            num = zt(s[1]) << k
            q = z3.UDiv(num, zt(t[1]))
            sticky = z3.URem(num, zt(t[1])) != B(0)
        else:
            # contract mode: the oracle speaks about the implementation's own (quot, rem) pair, and the
            # harness checks that the implementation's scaling provides >= prec+2 quotient bits
            k = extra
            G.CUR = (ob.eng, ob.assume)
            try:
                qq, rr = mpmodels.sym_divmod(binop(operator.lshift, s[1], extra), t[1])
            finally:
                G.CUR = None
            q, sticky = zt(qq), zt(rr) != B(0)
        qlo, qhi = sbc + k - tbc, sbc + k - tbc + 1
    base = zt(s[2]) - zt(t[2]) - B(k)

    def good(val, st):
        val = unwrap(val, st)
        if val is None:
            return False

        def full():
            R = ref_round(q, sticky, prec, rnd, neg, qlo, qhi)
            enough = True if tbc == 1 else (qlo >= prec + 2)
            return z3.And(z3.BoolVal(enough), value_matches(val, neg, R, base, qhi + 3, prec))
        return aspect_good(p.get('aspect', 'round'), val, prec, full)
    return finish(ob, ob.prove(outs, good))


def div_concrete(p, m):
    L = libmpf()
    s = mk_tuple(m, 's', p['sbc'])
    t = mk_tuple(m, 't', p['tbc'])
    entry = p.get('entry', 'libmp')
    if entry == 'libmp':
        r = L.mpf_div(s, t, p['prec'], p['rnd'])
    else:
        r = _api_binary_concrete(entry, '/', s, t, p['prec'], p['rnd'])
    return O.check_rounded(r, O.frac_of(s, s[2]) / O.frac_of(t, t[2]), p['prec'], p['rnd'], shift=s[2] - t[2])


def rdiv_int(p):
    nbc, tbc, prec, rnd = p['nbc'], p['tbc'], p['prec'], p['rnd']
    extra = prec + tbc + 5
    ob = Ob(wbump(p, nbc + extra + 60), timeout_s=p.get('_t', 60), models=mpmodels.mp_models(contract_divmod=True, contract_sqrt=False))
    G.stats['DIV_PRECISE_BITS'] = 4096
    t = ob.mpf('t', tbc)
    na = ob.int('n_abs', 1 << (nbc - 1), (1 << nbc) - 1) if nbc > 1 else 1
    nneg = ob.bit('n_neg')
    n = V.merge(zt(nneg) == B(1), V.neg(na), na)
    L = libmpf()
    outs = ob.run(L.mpf_rdiv_int, [n, t, prec, rnd])
    neg = (zt(nneg) ^ zt(t[0])) == B(1)
    k = max(prec + 3 - (nbc - tbc), 0) + 2
    num = zt(na) << k
    q = z3.UDiv(num, zt(t[1]))
    sticky = z3.URem(num, zt(t[1])) != B(0)
    qlo, qhi = nbc + k - tbc, nbc + k - tbc + 1
    base = -zt(t[2]) - B(k)

    def good(val, st):
        def full():
            R = ref_round(q, sticky, prec, rnd, neg, qlo, qhi)
            return value_matches(val, neg, R, base, qhi + 3, prec)
        return aspect_good(p.get('aspect', 'round'), val, prec, full)
    return finish(ob, ob.prove(outs, good))


def rdiv_int_concrete(p, m):
    L = libmpf()
    t = mk_tuple(m, 't', p['tbc'])
    na = 1 if p['nbc'] == 1 else m['n_abs']
    n = -na if m['n_neg'] else na
    r = L.mpf_rdiv_int(n, t, p['prec'], p['rnd'])
    return O.check_rounded(r, Fraction(n) / O.frac_of(t, t[2]), p['prec'], p['rnd'], shift=-t[2])


# ------------------------------------------------------------------------------ sqrt
def sqrt(p):
    """mpf_sqrt of a positive value; exponent parity symbolic-by-grid (p['odd'])"""
    bc, prec, rnd, odd = p['bc'], p['prec'], p['rnd'], p['odd']
    shift = max(4, 2 * prec - bc + 4) + 3
    precise = p.get('precise', bc + shift <= 26)
    ob = Ob(wbump(p, bc + shift + 60), timeout_s=p.get('_t', 60), models=mpmodels.mp_models(contract_divmod=False, contract_sqrt=True),
            mul_precise_bits=64)
    G.stats['SQRT_PRECISE_BITS'] = 4096 if precise else 0
    man = ob.man('x_man', bc)
    h = ob.int('x_halfexp', -E30, E30)
    exp = add(binop(operator.mul, h, 2), 1 if odd else 0)
    x = (0, man, exp, bc)
    L = libmpf()
    outs = ob.run(L.mpf_sqrt, [x, prec, rnd])
    # reference root: N = man * 2^(odd) * 4^K ; y = isqrt(N), sticky = N != y*y ; value = (y+f) * 2^(h-K)
    if precise:
        K = max(prec + 2 - (bc + odd + 1) // 2, 0) + 2
        N = zt(man) << (2 * K + (1 if odd else 0))
        y = z3.BitVec('ref_root', G.W)
        nb = (bc + (1 if odd else 0) + 2 * K + 1) // 2 + 1
        pre = [z3.ULT(y, B(1 << nb)), z3.ULE(y * y, N), z3.UGT((y + B(1)) * (y + B(1)), N)]
        sticky = (y * y != N)
        ylo = (bc + (1 if odd else 0) + 2 * K + 1) // 2      # bit length of isqrt of an n-bit number is (n+1)//2
        yhi = ylo
        base = zt(h) - B(K)

        def good(val, st):
            def full():
                R = ref_round(y, sticky, prec, rnd, FALSE, ylo, yhi + 1)
                return z3.Implies(z3.And(pre), value_matches(val, FALSE, R, base, yhi + 3, prec))
            return aspect_good(p.get('aspect', 'round'), val, prec, full)
        res = ob.prove(outs, good)
        return finish(ob, res)
    # contract mode: talk about the implementation's own root of its own scaled argument; verify that the scaling
    # leaves >= prec+2 root bits and that (root, rem != 0) is turned into the correctly rounded result
    bc2 = bc + (1 if odd else 0)
    sh = max(4, 2 * prec - bc2 + 4)
    sh += sh & 1
    arg = binop(operator.lshift, binop(operator.lshift, man, 1 if odd else 0), sh)
    yy, rem = mpmodels.sym_sqrtrem(arg)
    ylo = yhi = (bc2 + sh + 1) // 2
    base = zt(h) - B(sh // 2)

    def good2(val, st):
        def full():
            R = ref_round(zt(yy), zt(rem) != B(0), prec, rnd, FALSE, ylo, yhi + 1)
            return z3.And(z3.BoolVal(ylo >= prec + 2), value_matches(val, FALSE, R, base, yhi + 3, prec))
        return aspect_good(p.get('aspect', 'round'), val, prec, full)
    return finish(ob, ob.prove(outs, good2))


def sqrt_concrete(p, m):
    import math
    L = libmpf()
    bc, prec, rnd = p['bc'], p['prec'], p['rnd']
    man = 1 if bc == 1 else m['x_man']
    exp = 2 * m['x_halfexp'] + (1 if p['odd'] else 0)
    r = L.mpf_sqrt((0, man, exp, bc), prec, rnd)
    # exact reference: integer square root of the mantissa scaled by 4^K (K large), then round (y, sticky)
    mm, ee = (man << 1, exp - 1) if exp & 1 else (man, exp)
    K = prec + 4
    N = mm << (2 * K)
    y = math.isqrt(N)
    if y * y == N:
        want_src = Fraction(y)
    else:
        want_src = Fraction(2 * y + 1, 2)      # any point strictly inside (y, y+1) rounds the same: y has >= prec+2 bits
    return O.check_rounded(r, want_src, prec, rnd, shift=ee // 2 - K)


# ------------------------------------------------------------------------------ unary
def unary(p):
    """mpf_pos / mpf_neg / mpf_abs, libmp or API (+x, -x, abs(x), fneg)"""
    bc, prec, rnd, fn = p['bc'], p['prec'], p['rnd'], p['fn']
    ob = Ob(wbump(p, bc + 48), timeout_s=p.get('_t', 60))
    x = ob.mpf('x', bc)
    L = libmpf()
    entry = p.get('entry', 'libmp')
    if entry == 'libmp':
        outs = ob.run(getattr(L, fn), [x, prec, rnd])
        unwrap = lambda v, st: v
    else:
        mp = _ctx(prec)
        xo = mp.make_mpf(x)
        if entry == 'op':
            meth = {'mpf_pos': '__pos__', 'mpf_neg': '__neg__', 'mpf_abs': '__abs__'}[fn]
            if rnd != 'n':
                raise Unsupported('operator uses context rounding')
            outs = ob.run(getattr(mp.mpf, meth), [xo])
        elif entry == 'f':
            if fn != 'mpf_neg':
                raise Unsupported('only fneg')
            outs = ob.run(mp.fneg, [xo], dict(prec=prec, rounding=rnd))
        elif entry == 'ctor':
            outs = ob.run(mp.mpf, [xo], dict(prec=prec, rounding=rnd))
        else:
            raise Unsupported(entry)
        cls = mp.mpf

        def unwrap(v, st):
            if not isinstance(v, cls):
                return None
            h = st.heap.get((id(v), '_mpf_'))
            return h[1] if h is not None else v._mpf_
    sneg = zt(x[0]) == B(1)
    neg = {'mpf_pos': sneg, 'mpf_neg': z3.Not(sneg), 'mpf_abs': FALSE}[fn]

    def good(val, st):
        val = unwrap(val, st)
        if val is None:
            return False

        def full():
            R = ref_round(zt(x[1]), FALSE, prec, rnd, neg, bc, bc)
            return value_matches(val, neg, R, zt(x[2]), bc + 1, prec)
        return aspect_good(p.get('aspect', 'round'), val, prec, full)
    return finish(ob, ob.prove(outs, good))


def unary_concrete(p, m):
    L = libmpf()
    x = mk_tuple(m, 'x', p['bc'])
    entry = p.get('entry', 'libmp')
    fn, prec, rnd = p['fn'], p['prec'], p['rnd']
    if entry == 'libmp':
        r = getattr(L, fn)(x, prec, rnd)
    else:
        mp = _ctx(prec)
        try:
            xo = mp.make_mpf(x)
            if entry == 'op':
                r = {'mpf_pos': operator.pos, 'mpf_neg': operator.neg, 'mpf_abs': abs}[fn](xo)._mpf_
            elif entry == 'f':
                r = mp.fneg(xo, prec=prec, rounding=rnd)._mpf_
            else:
                r = mp.mpf(xo, prec=prec, rounding=rnd)._mpf_
        finally:
            mp.prec = 53
    v = O.frac_of(x, x[2])
    exact = {'mpf_pos': v, 'mpf_neg': -v, 'mpf_abs': abs(v)}[fn]
    return O.check_rounded(r, exact, prec, rnd, shift=x[2])


# ------------------------------------------------------------------------------ from_man_exp / from_int
def from_man_exp(p):
    """from_man_exp(man, exp, prec, rnd) with signed symbolic man of exactly bc bits (any parity)"""
    bc, prec, rnd = p['bc'], p['prec'], p['rnd']
    fn = p.get('fn', 'from_man_exp')
    ob = Ob(wbump(p, bc + 48), timeout_s=p.get('_t', 60))
    ma = ob.man('man_abs', bc, odd=False)
    mneg = ob.bit('man_neg')
    man = V.merge(zt(mneg) == B(1), V.neg(ma), ma)
    L = libmpf()
    if fn == 'from_man_exp':
        exp = ob.int('exp', -E30, E30)
        outs = ob.run(L.from_man_exp, [man, exp] + ([prec, rnd] if prec else []))
        base = zt(exp)
    else:
        outs = ob.run(L.from_int, [man] + ([prec, rnd] if prec else []))
        base = B(0)
    neg = zt(mneg) == B(1)

    def good(val, st):
        def full():
            R = ref_round(zt(ma), FALSE, prec, rnd, neg, bc, bc) if prec else zt(ma)
            return value_matches(val, neg, R, base, bc + 1, prec or None)
        return aspect_good(p.get('aspect', 'round'), val, prec, full)
    return finish(ob, ob.prove(outs, good))


def from_man_exp_concrete(p, m):
    L = libmpf()
    bc, prec, rnd = p['bc'], p['prec'], p['rnd']
    ma = 1 if bc == 1 else m['man_abs']
    man = -ma if m['man_neg'] else ma
    if p.get('fn', 'from_man_exp') == 'from_man_exp':
        r = L.from_man_exp(man, m['exp'], *([prec, rnd] if prec else []))
        exact, sh = Fraction(man), m['exp']
    else:
        r = L.from_int(man, *([prec, rnd] if prec else []))
        exact, sh = Fraction(man), 0
    return O.check_rounded(r, exact, prec, rnd, shift=sh)


# ------------------------------------------------------------------------------ special values
SPECIALS = {'zero': FZERO, 'inf': FINF, 'ninf': FNINF, 'nan': FNAN}
_FLOATS = {'zero': 0.0, 'inf': float('inf'), 'ninf': float('-inf'), 'nan': float('nan')}


def _special_expect(op, a, b, fsign):
    """IEEE/Python-float semantics as the oracle for the special-value table.
    a, b in SPECIALS or 'fin' (finite nonzero with sign fsign).  Returns one of
    ('tuple', t) | ('raise', ZeroDivisionError) | ('round', which_operand, negate)"""
    fa = _FLOATS.get(a, -1.5 if fsign else 1.5)
    fb = _FLOATS.get(b, -1.5 if fsign else 1.5)
    try:
        r = {'+': operator.add, '-': operator.sub, '*': operator.mul, '/': operator.truediv}[op](fa, fb)
    except ZeroDivisionError:
        return ('raise', ZeroDivisionError)
    if r != r:
        return ('tuple', FNAN)
    if r == float('inf'):
        return ('tuple', FINF)
    if r == float('-inf'):
        return ('tuple', FNINF)
    if r == 0:
        return ('tuple', FZERO)
    # finite nonzero: only x+0, 0+x, x-0, 0-x reach here
    if a == 'fin':
        return ('round', 'a', False)
    return ('round', 'b', op == '-')


def special(p):
    """op in + - * / with a special operand (and a symbolic finite or a second special operand)"""
    op, a, b, prec, rnd = p['op'], p['a'], p['b'], p['prec'], p['rnd']
    fsign, bc = p.get('fsign', 0), p.get('bc', 9)
    ob = Ob(wbump(p, bc + 60), timeout_s=p.get('_t', 60), models=mpmodels.mp_models(contract_divmod=True, contract_sqrt=False))
    G.stats['DIV_PRECISE_BITS'] = 4096
    fin = ob.mpf('x', bc, sign=fsign)
    A = SPECIALS.get(a, fin)
    Bv = SPECIALS.get(b, fin)
    L = libmpf()
    fn = {'+': L.mpf_add, '-': L.mpf_sub, '*': L.mpf_mul, '/': L.mpf_div}[op]
    entry = p.get('entry', 'libmp')
    if entry == 'libmp':
        outs = ob.run(fn, [A, Bv, prec, rnd])
        unwrap = lambda v, st: v
    else:
        outs, unwrap = _api_binary(ob, entry, op, A, Bv, prec, rnd)
    exp = _special_expect(op, a, b, fsign)

    def good(val, st):
        val = unwrap(val, st)
        if val is None or exp[0] == 'raise':
            return False
        if exp[0] == 'tuple':
            return is_tuple(val, exp[1])
        neg = z3.BoolVal(bool(fsign) != exp[2])
        R = ref_round(zt(fin[1]), FALSE, prec, rnd, neg, bc, bc)
        return value_matches(val, neg, R, zt(fin[2]), bc + 1, prec)

    def good_raise(exc, st):
        return exp[0] == 'raise' and isinstance(exc, exp[1])
    return finish(ob, ob.prove(outs, good, good_raise))


def special_concrete(p, m):
    L = libmpf()
    op, a, b, prec, rnd = p['op'], p['a'], p['b'], p['prec'], p['rnd']
    fsign, bc = p.get('fsign', 0), p.get('bc', 9)
    fin = (fsign, m.get('x_man', 1), m.get('x_exp', 0), bc)
    A = SPECIALS.get(a, fin)
    Bv = SPECIALS.get(b, fin)
    exp = _special_expect(op, a, b, fsign)
    fn = {'+': L.mpf_add, '-': L.mpf_sub, '*': L.mpf_mul, '/': L.mpf_div}[op]
    try:
        if p.get('entry', 'libmp') == 'libmp':
            r = fn(A, Bv, prec, rnd)
        else:
            r = _api_binary_concrete(p['entry'], op, A, Bv, prec, rnd)
    except Exception as e:
        ok = exp[0] == 'raise' and isinstance(e, exp[1])
        return ok, '' if ok else 'raised %r, expected %r' % (e, exp)
    if exp[0] == 'raise':
        return False, 'returned %r, expected %s' % (r, exp[1].__name__)
    if exp[0] == 'tuple':
        return tuple(r) == exp[1], 'returned %r, expected %r' % (r, exp[1])
    v = O.frac_of(fin, fin[2])
    return O.check_rounded(r, -v if exp[2] else v, prec, rnd, shift=fin[2])
