"""Families for magnitude / nearest-integer / classification helpers (C39)."""
import operator
from fractions import Fraction
import math

import z3

from pysym import values as V
from pysym.values import G, SInt, SBool, bvv, zt, zb, binop, Unsupported
from vlib.ob import Ob, add, sub
from vlib import oracle as O
from vlib.oracle import B, canonical, is_tuple, FZERO, FNAN, FINF, FNINF
from checks.fam_arith import finish, wbump, mk_tuple, libmpf, FALSE, TRUE, E30, _ctx, SPECIALS


def _is_obj_tuple(v, tup, st=None):
    return hasattr(v, '_mpf_') and tuple(v._mpf_) == tup


def mag(p):
    """mp.mag(x): integer m with |x| <= 2**m and m at most 2 above optimal.  kind: 'mpf' | 'mpc' | 'int'"""
    kind = p['kind']
    mp = _ctx(p.get('ctxprec', 53))
    if kind == 'mpf':
        bc = p['bc']
        ob = Ob(wbump(p, bc + 70), timeout_s=p.get('_t', 60))
        x = ob.mpf('x', bc)
        outs = ob.run(mp.mag, [mp.make_mpf(x)])
        m_, e_ = zt(x[1]), zt(x[2])

        def good(val, st):
            if not isinstance(val, (SInt, int)):
                return False
            k = zt(val) - e_           # |x| = man * 2^e <= 2^m  <=>  man <= 2^(m-e)
            one = B(1)
            return z3.And(k >= B(0), k <= B(bc + 3), z3.ULE(m_, one << k), z3.Or(k < B(3), z3.UGT(m_, one << (k - B(3)))))
        return finish(ob, ob.prove(outs, good))
    if kind == 'int':
        nbc = p['bc']
        ob = Ob(wbump(p, nbc + 70), timeout_s=p.get('_t', 60))
        na = ob.int('n_abs', 1 << (nbc - 1), (1 << nbc) - 1) if nbc > 1 else 1
        n = V.neg(na) if p.get('neg') else na
        outs = ob.run(mp.mag, [n])

        def good(val, st):
            if not isinstance(val, (SInt, int)):
                return False
            k = zt(val)
            one = B(1)
            return z3.And(k >= B(0), k <= B(nbc + 3), z3.ULE(zt(na), one << k), z3.Or(k < B(3), z3.UGT(zt(na), one << (k - B(3)))))
        return finish(ob, ob.prove(outs, good))
    if kind == 'mpq':
        # exact rational P/Q with symbolic numerator and denominator: |P| <= Q * 2**m and |P| > Q * 2**(m-3)
        from mpmath import rational
        pbc, qbc = p['pbc'], p['qbc']
        ob = Ob(wbump(p, pbc + qbc + 80), timeout_s=p.get('_t', 60), mul_precise_bits=4096)
        Pa = ob.int('P_abs', 1 << (pbc - 1), (1 << pbc) - 1) if pbc > 1 else 1
        Pn = ob.bit('P_neg')
        P = V.merge(zt(Pn) == B(1), V.neg(Pa), Pa)
        Q = ob.int('Q', 1 << (qbc - 1), (1 << qbc) - 1) if qbc > 1 else 1
        xq = object.__new__(rational.mpq)
        xq._mpq_ = (P, Q)
        outs = ob.run(mp.mag, [xq])
        S = qbc + 4                     # common shift that makes every exponent below non-negative

        def goodq(val, st):
            if not isinstance(val, (SInt, int)):
                return False
            k = zt(val)
            rng = z3.And(k >= B(-(qbc + 1)), k <= B(pbc + 3))
            lhs = zt(Pa) << B(S)                           # |P| * 2**S
            return z3.And(rng, z3.ULE(lhs, zt(Q) << (k + B(S))), z3.UGT(lhs, zt(Q) << (k + B(S - 3))))
        return finish(ob, ob.prove(outs, goodq))
    # complex: |z|^2 = re^2 + im^2 <= 4^m  and  > 4^(m-3)
    rbc, ibc, off = p['rbc'], p['ibc'], p['off']
    top = max(rbc + max(off, 0), ibc + max(-off, 0))
    ob = Ob(wbump(p, 2 * top + 80), timeout_s=p.get('_t', 60), mul_precise_bits=4096)
    im = ob.mpf('im', ibc)
    re = ob.mpf('re', rbc, exp=add(im[2], off))
    outs = ob.run(mp.mag, [mp.make_mpc((re, im))])
    lo = min(0, off)
    R = zt(re[1]) << (off - lo)
    I = zt(im[1]) << (-lo)
    bnd = (0, 1 << (top + 1))
    sq = V.narrow_mul(R, R, bnd, bnd) + V.narrow_mul(I, I, bnd, bnd)      # |z|^2 at scale 4^(im_exp+lo)
    base = zt(im[2]) + B(lo)

    def goodc(val, st):
        if not isinstance(val, (SInt, int)):
            return False
        k = zt(val) - base
        one = B(1)
        return z3.And(k >= B(0), k <= B(top + 4), z3.ULE(sq, one << (k + k)), z3.Or(k < B(3), z3.UGT(sq, one << (k + k - B(6)))))
    return finish(ob, ob.prove(outs, goodc))


def mag_concrete(p, m):
    mp = _ctx(p.get('ctxprec', 53))
    kind = p['kind']
    try:
        if kind == 'mpf':
            x = mk_tuple(m, 'x', p['bc'])
            r = mp.mag(mp.make_mpf(x))
            v2 = O.frac_of(x, x[2]) ** 2
            sh = x[2]
        elif kind == 'int':
            na = m.get('n_abs', 1)
            n = -na if p.get('neg') else na
            r = mp.mag(n)
            v2, sh = Fraction(n) ** 2, 0
        elif kind == 'mpq':
            from mpmath import rational
            Pa = 1 if p['pbc'] == 1 else m['P_abs']
            Pv = -Pa if m.get('P_neg') else Pa
            Qv = 1 if p['qbc'] == 1 else m['Q']
            xq = object.__new__(rational.mpq)
            xq._mpq_ = (Pv, Qv)
            r = mp.mag(xq)
            v2, sh = Fraction(Pv, Qv) ** 2, 0
        else:
            im = mk_tuple(m, 'im', p['ibc'])
            re = mk_tuple(m, 're', p['rbc'], exp=im[2] + p['off'])
            r = mp.mag(mp.make_mpc((re, im)))
            sh = min(re[2], im[2])
            v2 = O.frac_of(re, sh) ** 2 + O.frac_of(im, sh) ** 2
    finally:
        mp.prec = 53
    if type(r) is not int:
        return False, 'mag returned %r' % (r,)
    k = r - sh
    ok = v2 <= Fraction(4) ** k and v2 > Fraction(4) ** (k - 3)
    return ok, 'mag = %r but |x|^2 = %s * 4^%d (need 4^(m-3) < |x|^2 <= 4^m)' % (r, v2, sh)


def nint_distance(p):
    """mp.nint_distance(x) for x = +-man * 2**exp (exp concrete)"""
    bc, exp = p['bc'], p['exp']
    mp = _ctx(53)
    ob = Ob(wbump(p, bc + abs(exp) + 70), timeout_s=p.get('_t', 60))
    x = ob.mpf('x', bc, exp=exp)
    outs = ob.run(mp.nint_distance, [mp.make_mpf(x)])
    neg = zt(x[0]) == B(1)
    m_ = zt(x[1])

    def good(val, st):
        if not isinstance(val, tuple) or len(val) != 2:
            return False
        n, d = val
        if not isinstance(n, (SInt, int)):
            return False
        nt = zt(n)
        if exp >= 0:
            want_n = z3.If(neg, -(m_ << exp), m_ << exp)
            return z3.And(nt == want_n) if _is_obj_tuple(d, FNINF) else False
        k = -exp
        na = z3.If(nt < 0, -nt, nt)
        sign_ok = z3.Or(nt == B(0), (nt < 0) == neg)
        N = na << k
        diff = z3.If(z3.UGE(m_, N), m_ - N, N - m_)
        nearest = z3.ULE(diff << 1, B(1 << k))
        if not isinstance(d, (SInt, int)):
            return False         # x is not an integer here (odd mantissa, exp < 0): a finite distance is required
        dd = zt(d) - B(exp)      # 2^(dd-1) <= diff < 2^dd
        one = B(1)
        dist = z3.And(dd >= B(1), dd <= B(bc + k + 2), z3.UGE(diff, one << (dd - one)), z3.ULT(diff, one << dd))
        return z3.And(sign_ok, nearest, dist)
    return finish(ob, ob.prove(outs, good))


def nint_distance_concrete(p, m):
    mp = _ctx(53)
    x = mk_tuple(m, 'x', p['bc'], exp=p['exp'])
    n, d = mp.nint_distance(mp.make_mpf(x))
    v = O.frac_of(x)
    if type(n) is not int:
        return False, 'n = %r' % (n,)
    diff = abs(v - n)
    if diff == 0:
        return d == mp.ninf, 'integer input but d = %r' % (d,)
    ok = diff <= Fraction(1, 2) and type(d) is int and Fraction(2) ** (d - 1) <= diff < Fraction(2) ** d
    return ok, 'nint_distance(%s) = (%r, %r); |x-n| = %s' % (v, n, d, diff)


CLASS_FUNCS = ('isint', 'isnormal', 'isinf', 'isnan', 'isfinite', 'isnpint')


def classify(p):
    """isint / isnormal / isinf / isnan / isfinite / isnpint on mpf and mpc arguments (finite symbolic or special)"""
    fn, kind = p['fn'], p['kind']
    mp = _ctx(53)
    ob = Ob(wbump(p, 80), timeout_s=p.get('_t', 60))

    def operand(name, k, exp):
        if k in SPECIALS:
            return SPECIALS[k]
        return ob.mpf(name, 5, exp=exp, sign=1 if k == 'neg' else 0)
    if kind == 'mpf':
        x = operand('x', p['a'], p.get('exp', 0))
        arg = mp.make_mpf(x)
    else:
        re, im = operand('re', p['a'], p.get('exp', 0)), operand('im', p['b'], p.get('iexp', 0))
        arg = mp.make_mpc((re, im))
    outs = ob.run(getattr(mp, fn), [arg])
    want = _class_want(fn, kind, p)
    return finish(ob, ob.prove(outs, lambda v, st: (zb(v) == z3.BoolVal(want)) if isinstance(v, (SBool, SInt)) else (bool(v) == want if isinstance(v, (bool, int)) else False)))


def _class_want(fn, kind, p):
    def props(k, exp):
        fin = k in ('pos', 'neg', 'zero')
        integer = k == 'zero' or (k in ('pos', 'neg') and exp >= 0)
        return dict(fin=fin, inf=k in ('inf', 'ninf'), nan=k == 'nan', zero=k == 'zero', integer=integer, neg=k in ('neg', 'ninf'))
    a = props(p['a'], p.get('exp', 0))
    if kind == 'mpf':
        return {'isint': a['integer'], 'isnormal': a['fin'] and not a['zero'], 'isinf': a['inf'], 'isnan': a['nan'],
                'isfinite': a['fin'], 'isnpint': a['integer'] and (a['zero'] or a['neg'])}[fn]
    b = props(p['b'], p.get('iexp', 0))
    if fn == 'isint':
        return a['integer'] and b['zero']
    if fn == 'isnormal':
        # |z| normal: nonzero and finite, no nan
        if a['zero']:
            return b['fin'] and not b['zero']
        if b['zero']:
            return a['fin'] and not a['zero']
        return a['fin'] and b['fin']
    if fn == 'isinf':
        return (a['inf'] or b['inf'])
    if fn == 'isnan':
        return a['nan'] or b['nan']
    if fn == 'isfinite':
        return a['fin'] and b['fin']
    if fn == 'isnpint':
        return b['zero'] and a['integer'] and (a['zero'] or a['neg'])


def classify_concrete(p, m):
    mp = _ctx(53)

    def operand(name, k, exp):
        if k in SPECIALS:
            return SPECIALS[k]
        return mk_tuple(m, name, 5, exp=exp, sign=1 if k == 'neg' else 0)
    if p['kind'] == 'mpf':
        arg = mp.make_mpf(operand('x', p['a'], p.get('exp', 0)))
    else:
        arg = mp.make_mpc((operand('re', p['a'], p.get('exp', 0)), operand('im', p['b'], p.get('iexp', 0))))
    r = getattr(mp, p['fn'])(arg)
    want = _class_want(p['fn'], p['kind'], p)
    return bool(r) == want and isinstance(r, (bool, int)), '%s(%r) = %r, expected %r' % (p['fn'], arg, r, want)


def ldexp_frexp(p):
    """mp.ldexp(x, n) == x * 2**n exactly (no rounding); mp.frexp(x) = (y, n) with |y| in [1/2, 1), x == y * 2**n"""
    bc, fn = p['bc'], p['fn']
    mp = _ctx(p.get('ctxprec', 3))           # deliberately tiny working precision: these operations are exact
    ob = Ob(wbump(p, bc + 70), timeout_s=p.get('_t', 60))
    x = ob.mpf('x', bc)
    xo = mp.make_mpf(x)

    def tup(v, st):
        if not isinstance(v, mp.mpf):
            return None
        h = st.heap.get((id(v), '_mpf_'))
        return h[1] if h is not None else v._mpf_
    if fn == 'ldexp':
        n = ob.int('n', -E30, E30)
        outs = ob.run(mp.ldexp, [xo, n])

        def good(val, st):
            t = tup(val, st)
            if t is None:
                return False
            return z3.And(zt(t[0]) == zt(x[0]), zt(t[1]) == zt(x[1]), zt(t[2]) == zt(x[2]) + zt(n), zt(t[3]) == B(bc))
    else:
        outs = ob.run(mp.frexp, [xo])

        def good(val, st):
            if not isinstance(val, tuple) or len(val) != 2:
                return False
            t = tup(val[0], st)
            if t is None or not isinstance(val[1], (SInt, int)):
                return False
            return z3.And(zt(t[0]) == zt(x[0]), zt(t[1]) == zt(x[1]), zt(t[2]) == B(-bc), zt(t[3]) == B(bc), zt(val[1]) == zt(x[2]) + B(bc))
    return finish(ob, ob.prove(outs, good))


def ldexp_frexp_concrete(p, m):
    mp = _ctx(p.get('ctxprec', 3))
    try:
        x = mk_tuple(m, 'x', p['bc'])
        xo = mp.make_mpf(x)
        if p['fn'] == 'ldexp':
            r = mp.ldexp(xo, m['n'])
            ok = tuple(r._mpf_) == (x[0], x[1], x[2] + m['n'], x[3])
            return ok, 'ldexp(%r, %r) = %r' % (x, m['n'], r._mpf_)
        y, n = mp.frexp(xo)
        ok = tuple(y._mpf_) == (x[0], x[1], -x[3], x[3]) and n == x[2] + x[3]
        return ok, 'frexp(%r) = (%r, %r)' % (x, y._mpf_, n)
    finally:
        mp.prec = 53


def nint_distance_q(p):
    """mp.nint_distance(x) for an exact rational x = P/Q (mpq with symbolic numerator and denominator): n is a nearest integer
    and 2**(d-1) < |x - n| < 2**(d+1) (d = -inf exactly when x is an integer)"""
    from mpmath import rational
    from pysym import mpmodels
    pbc, qbc = p['pbc'], p['qbc']
    mp = _ctx(53)
    ob = Ob(wbump(p, pbc + 2 * qbc + 70), timeout_s=p.get('_t', 60), mul_precise_bits=4096, models=mpmodels.mp_models(contract_divmod=True, contract_sqrt=False))
    G.stats['DIV_PRECISE_BITS'] = 4096
    Pa = ob.int('P_abs', 1 << (pbc - 1), (1 << pbc) - 1) if pbc > 1 else 1
    Pn = ob.bit('P_neg')
    P = V.merge(zt(Pn) == B(1), V.neg(Pa), Pa)
    Q = ob.int('Q', 1 << (qbc - 1), (1 << qbc) - 1) if qbc > 1 else 1
    x = object.__new__(rational.mpq)
    x._mpq_ = (P, Q)
    outs = ob.run(mp.nint_distance, [x])
    Pt, Qt = zt(P), zt(Q)

    def good(val, st):
        if not isinstance(val, tuple) or len(val) != 2:
            return False
        n, d = val
        if not isinstance(n, (SInt, int)):
            return False
        nt = zt(n)
        rem = Pt - nt * Qt
        ar = z3.If(rem < 0, -rem, rem)
        nearest = (ar << 1) <= Qt
        if _is_obj_tuple(d, FNINF):
            return z3.And(rem == B(0))
        if not isinstance(d, (SInt, int)):
            return False
        dt = zt(d)
        # 2**(d-1) * Q < |P - nQ| < 2**(d+1) * Q ;  d <= 0 here (|x - n| <= 1/2): multiply through by 2**(1-d)
        sh = B(1) - dt
        rng = z3.And(dt <= B(0), dt >= B(-(pbc + qbc + 4)))
        lhs = ar << sh                      # |rem| * 2**(1-d)
        return z3.And(rem != B(0), nearest, rng, Qt < lhs, lhs < (Qt << 2))
    return finish(ob, ob.prove(outs, good))


def nint_distance_q_concrete(p, m):
    from mpmath import rational
    mp = _ctx(53)
    pbc, qbc = p['pbc'], p['qbc']
    Pa = 1 if pbc == 1 else m['P_abs']
    P = -Pa if m.get('P_neg') else Pa
    Q = 1 if qbc == 1 else m['Q']
    x = object.__new__(rational.mpq)
    x._mpq_ = (P, Q)
    n, d = mp.nint_distance(x)
    v = Fraction(P, Q)
    diff = abs(v - n)
    if diff == 0:
        return d == mp.ninf, 'integer input but d = %r' % (d,)
    ok = diff <= Fraction(1, 2) and type(d) is int and Fraction(2) ** (d - 1) < diff < Fraction(2) ** (d + 1)
    return ok, 'nint_distance(mpq(%d, %d)) = (%r, %r); |x-n| = %s' % (P, Q, n, d, diff)
