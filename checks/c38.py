"""C38 -- contexts are isolated from each other (precision / settings), clones start at the same precision."""
from checks import c11 as _c11

PROPERTY = 'C38'
LEVEL = 'other'
FX = 'checks.fam_ctx:'
TECHNIQUE = ('symbolic execution of the real precision/settings setters, precision managers and MPContext.clone (pysym, z3 QF_UFBV) with the other '
             "context's observable state read through the same symbolic heap; counterexamples replayed natively")
EXPLANATION = (
    "Partial, bounded.  Five context objects are built by the real constructors of the current tree (mp, mp.clone(), a clone of the "
    "clone, iv, fp).  For every ordered pair (a, b) and every way of changing a's configuration -- a.prec = n, a.dps = n with a "
    "symbolic n in 1..2^20, a.pretty / a.trap_complex = symbolic bool, and `with a.workprec(n)/workdps(n)/extraprec(n)/extradps(n)` "
    "-- the real setter / manager source is executed symbolically, and what a user of b can observe of b's configuration (b.prec, "
    "b.dps, the precision and rounding mode b's number types read through _ctxdata, b.pretty, b.trap_complex) is read through the "
    "same post-state heap before, during and after.  Any object shared between the two contexts that carries configuration (a "
    "shared _prec_rounding list, a shared number class, a class-level slot) makes b's observation depend on n, and z3 returns the "
    "n that exposes it; the counterexample is replayed on real context objects.  MPContext.clone is executed from an arbitrary "
    "entry precision P0 (not necessarily the image of a dps): the clone shows exactly (P0, prec_to_dps(P0)) and owns its own "
    "precision list and number classes.  NOT covered: coupling through results (module-level caches of constants are the subject "
    "of C33; gamma/Bernoulli/zeta caches are outside), 'a clone computes the same values' beyond starting at the same precision."
)
TRUSTED = ["z3 (QF_UFBV)", "pysym interpreter semantics (heap overlay: reads of b go through the same heap as the writes of a)",
           "the five context objects are representative of 'mp, a clone of mp, fp, iv'"]
ASSUMPTIONS = ["only configuration state is observed (precision, dps, operator precision/rounding, pretty, trap_complex)",
               "prec_to_dps / dps_to_prec uninterpreted (as in C11)"]
BUDGET = {'quick': dict(ob_deadline_s=60, total_s=120), 'thorough': dict(ob_deadline_s=300, total_s=600)}
BOUNDS = {'quick': 'contexts {mp, clone, clone of clone, iv, fp}; all 20 ordered pairs; 8 kinds of change; new precision 1..2^20; clone from entry precision 1..2^20',
          'thorough': 'same as quick'}


def obligations(tier, seed=0):
    obs = [(FX + 'clone_prec', {})]
    names = ['mp', 'clone', 'clone2', 'iv', 'fp']
    for a in names:
        for b in names:
            if a == b:
                continue
            for which in ('prec', 'dps', 'pretty', 'trap_complex', 'workprec', 'workdps', 'extraprec', 'extradps'):
                if a in ('iv', 'fp') and which in ('trap_complex', 'workprec', 'workdps', 'extraprec', 'extradps'):
                    continue
                obs.append((FX + 'isolation', dict(a=a, b=b, which=which)))
    if tier == 'thorough':
        # the same with more time per obligation (the grid is already exhaustive over pairs and kinds of change)
        obs = [(s_, dict(p_, _t=120)) for s_, p_ in obs]
    return obs
