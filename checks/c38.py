"""C38 -- contexts are isolated from each other (precision / settings), clones start at the same precision."""
from checks import c11 as _c11

PROPERTY = 'C38'
LEVEL = 'other'
FX = 'checks.fam_ctx:'
TECHNIQUE = ('symbolic execution of the real precision/settings setters, precision managers and MPContext.clone (pysym, z3 QF_UFBV) with the other '
             "context's observable state read through the same symbolic heap; counterexamples replayed natively")
EXPLANATION = (
    "Partial, bounded.  Five context objects are built by the real constructors of the current tree (mp, mp.clone(), a clone of the "
    "clone, iv, fp).  For every ordered pair (a, b) and every way of changing a's configuration -- a.prec = n, a.dps = n with a "
    "symbolic n in 1..2^20, a.pretty / a.trap_complex = symbolic bool, and `with a.workprec(n)/workdps(n)/extraprec(n)/extradps(n)` "
    "-- the real setter / manager source is executed symbolically, and what a user of b can observe of b's configuration (b.prec, "
    "b.dps, the precision and rounding mode b's number types read through _ctxdata, b.pretty, b.trap_complex) is read through the "
    "same post-state heap before, during and after.  Any object shared between the two contexts that carries configuration (a "
    "shared _prec_rounding list, a shared number class, a class-level slot) makes b's observation depend on n, and z3 returns the "
    "n that exposes it; the counterexample is replayed on real context objects.  MPContext.clone is executed from an arbitrary "
    "entry precision P0 (not necessarily the image of a dps): the clone shows exactly (P0, prec_to_dps(P0)) and owns its own "
    "precision list and number classes.  Coupling through results: every function of the loaded mpmath modules (outside libmp) "
    "that takes the context as its first parameter and whose source may store into a container is entered through a fresh clone "
    "with arbitrary arguments (defaulted parameters keep their defaults), its callees replaced by arbitrary results, and executed "
    "over all its paths; no path may store a call-dependent value into a container that all contexts share (module global, "
    "default argument, class attribute; the set is computed from the live modules).  A path that does is confirmed natively "
    "before it is reported: the function's documented example calls are evaluated by context Y alone and by Y after another "
    "context X (mp at 200 bits, a clone at 30/40 bits, fp) evaluated the same calls, each sequence in a fresh process; a "
    "difference in number type or value is the violation, no difference leaves the obligation inconclusive.  NOT covered: the "
    "libmp-level caches (constants: C17/C33; Bernoulli, gamma, zeta tables are keyed by precision and hold raw tuples), stores "
    "made by callees that do not take the context, functions the abstract scan cannot finish (listed as inconclusive), 'a clone "
    "computes the same values' beyond starting at the same precision and owning its caches."
)
TRUSTED = ["z3 (QF_UFBV)", "pysym interpreter semantics (heap overlay: reads of b go through the same heap as the writes of a)",
           "the five context objects are representative of 'mp, a clone of mp, fp, iv'",
           "shared-store scan: callees are arbitrary (their own stores are found when they are scanned themselves, if they take the context)"]
ASSUMPTIONS = ["only configuration state is observed (precision, dps, operator precision/rounding, pretty, trap_complex)",
               "prec_to_dps / dps_to_prec uninterpreted (as in C11)"]
BUDGET = {'quick': dict(ob_deadline_s=60, total_s=300), 'thorough': dict(ob_deadline_s=300, total_s=600)}
BOUNDS = {'quick': 'contexts {mp, clone, clone of clone, iv, fp}; all 20 ordered pairs; 8 kinds of change; new precision 1..2^20; clone from entry precision 1..2^20',
          'thorough': 'same as quick, longer deadlines'}
BOUNDS['quick'] += ('; values crossing: ordered pairs of {mp, clone, clone of clone} x {convert, mpmathify, mpf(), mpc()} x {mpf, mpc} argument, '
                    '60-bit real / 7-bit imaginary mantissa, exponents in [-1000, 1000], any sign, precision 1..2^20; fp and iv as receiver not encoded')
BOUNDS['quick'] += ('; shared stores: one obligation per context-taking function that may store (about 110), loops unrolled twice, callees '
                    'stubbed, nested local functions inlined to depth 3, solver/scan deadline 20 s (thorough 90 s)')


def obligations(tier, seed=0):
    obs = [(FX + 'clone_prec', {})]
    names = ['mp', 'clone', 'clone2', 'iv', 'fp']
    for a in names:
        for b in names:
            if a == b:
                continue
            for which in ('prec', 'dps', 'pretty', 'trap_complex', 'workprec', 'workdps', 'extraprec', 'extradps'):
                if a in ('iv', 'fp') and which in ('trap_complex', 'workprec', 'workdps', 'extraprec', 'extradps'):
                    continue
                obs.append((FX + 'isolation', dict(a=a, b=b, which=which)))
    if tier == 'thorough':
        # the same with more time per obligation (the grid is already exhaustive over pairs and kinds of change)
        obs = [(s_, dict(p_, _t=120)) for s_, p_ in obs]
    # values crossing between contexts: a number of context a handed to b's conversion entry points becomes b's own
    for a in ('mp', 'clone', 'clone2'):
        for b in ('mp', 'clone', 'clone2'):
            if a == b:
                continue
            for how, kind in (('convert', 'mpf'), ('convert', 'mpc'), ('mpf', 'mpf'), ('mpc', 'mpf'), ('mpc', 'mpc'), ('mpmathify', 'mpf')):
                obs.append((FX + 'cross_value', dict(a=a, b=b, how=how, kind=kind)))
    # coupling through results: every function taking the context that may store into a container is scanned for stores of
    # call-dependent values into containers shared by all contexts
    from checks.fam_ctx import store_candidates
    for mn, qn in store_candidates():
        obs.append((FX + 'shared_store', dict(mod=mn, fn=qn, _t=20 if tier == 'quick' else 90)))
    return obs
