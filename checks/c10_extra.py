"""extra C10 obligations: complex routes and wrapper/kernels with stubs"""
from vlib.oracle import RNDS

FM = 'checks.fam_mpc:'


def obligations(tier, seed=0):
    obs = []
    for n, rnd in ((3, 'n'), (21, 'n')):
        obs.append((FM + 'nthroot_bits', dict(n=n, prec=8, rnd=rnd)))
    if tier == 'thorough':
        for n in (2, 3, 5, 20, 21):
            for prec in (10, 24):
                for rnd in ('n', 'f'):
                    obs.append((FM + 'nthroot_bits', dict(n=n, prec=prec, rnd=rnd, _t=600)))
    for case in ('cosh_large', 'tanh_large', 'exp_tiny', 'cos_sin_tiny', 'tan_tiny', 'atan_tiny', 'sinh_tiny', 'log_pow2'):
        for rnd in ('n', 'c', 'd'):
            obs.append(('checks.fam_elem:kernel_bits', dict(case=case, prec=12, rnd=rnd)))
    Z1 = dict(zbc=[4, 9], wbc=[9, 3], zoff=2, woff=-1, off=1)
    for fn in ('mpc_add', 'mpc_sub', 'mpc_add_mpf', 'mpc_sub_mpf'):
        for rnd in ('n', 'c'):
            obs.append((FM + 'caddsub', dict(prec=3, rnd=rnd, fn=fn, aspect='bits', **Z1)))
            obs.append((FM + 'caddsub', dict(prec=3, rnd=rnd, fn=fn, aspect='bits', entry='f', **Z1)))
    M1 = dict(zbc=[3, 4], wbc=[4, 3], zoff=1, woff=-2)
    for fn in ('mpc_mul', 'mpc_mul_mpf', 'mpc_square'):
        obs.append((FM + 'cmul', dict(prec=3, rnd='n', fn=fn, aspect='bits', **M1)))
    for fn in ('mpc_pos', 'mpc_neg', 'mpc_conjugate'):
        obs.append((FM + 'cunary', dict(zbc=[5, 9], zoff=1, prec=3, rnd='n', fn=fn, aspect='bits')))
    # prec= / dps= / rounding= keywords of the libmp wrappers on every path (real kernel, ComplexResult fallback, complex argument)
    for name in ('sqrt', 'ln', 'acos', 'asin', 'acosh', 'cbrt'):
        for arg in ('outside', 'inside', 'complex'):
            obs.append(('checks.fam_elem:wrap_kw', dict(name=name, kw=dict(prec=20), arg=arg)))
    for arg in ('outside', 'inside', 'complex'):
        obs.append(('checks.fam_elem:wrap_kw', dict(name='sqrt', kw=dict(dps=5), arg=arg)))
        obs.append(('checks.fam_elem:wrap_kw', dict(name='ln', kw=dict(prec=10, rounding='f'), arg=arg)))
        obs.append(('checks.fam_elem:wrap_kw', dict(name='acos', kw={}, arg=arg, ctxprec=30)))
    # complex elementary wrappers of libmpc with their inner kernels stubbed: the value handed back has at most prec bits
    for fn in ('mpc_exp', 'mpc_log', 'mpc_cos', 'mpc_sin', 'mpc_cosh', 'mpc_sinh', 'mpc_tanh', 'mpc_atan', 'mpc_acos', 'mpc_asin', 'mpc_asinh',
               'mpc_acosh', 'mpc_atanh', 'mpc_cos_pi', 'mpc_sin_pi', 'mpc_expj', 'mpc_expjpi', 'mpc_arg', 'mpc_abs', 'mpc_reciprocal', 'mpc_sqrt', 'mpc_cbrt'):
        obs.append(('checks.fam_elem:cwrap_bits', dict(fn=fn, prec=10, rnd='n')))
        if fn not in ('mpc_atan', 'mpc_atanh'):        # these two take ~1 min each (symbolic additions at prec+15 bits)
            obs.append(('checks.fam_elem:cwrap_bits', dict(fn=fn, prec=10, rnd='f')))
            obs.append(('checks.fam_elem:cwrap_bits', dict(fn=fn, prec=3, rnd='u', rexp=4, iexp=-6)))
    for prec, rnd in ((2, 'n'), (3, 'f'), (2, 'u')):
        obs.append(('checks.fam_elem:cwrap_bits', dict(fn='mpc_agm', prec=prec, rnd=rnd, two=True)))
    # kernels of digamma and integer-order Bessel J run symbolically (their series loops for real, mpf_log stubbed): final rounding
    for prec, rnd in ((3, 'n'), (4, 'f'), (2, 'u')):
        obs.append(('checks.fam_elem:psi0_bits', dict(prec=prec, rnd=rnd)))
        obs.append(('checks.fam_elem:besseljn_bits', dict(n=1, prec=prec, rnd=rnd)))
        obs.append(('checks.fam_elem:besseljn_bits', dict(n=-1, prec=prec, rnd=rnd, bc=9, xexp=-60)))
    # _wrap_specfun: the closure around every @defun_wrapped special function hands back +retval (rounded to the context
    # precision) whatever the wrapped function returns at prec+10
    for name, kind in (('acot', 'mpf'), ('sec', 'mpc'), ('_erf_complex', 'mpc'), ('csch', 'mpf'), ('acsc', 'mpf')):
        for prec in (12, 53):
            obs.append(('checks.fam_elem:specfun_wrap', dict(name=name, prec=prec, kind=kind)))
    return obs
