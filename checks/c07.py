"""C07 -- decimal strings convert to correctly rounded binary values (numeric layer)."""
from vlib.oracle import RNDS
from checks import c02 as _c02

PROPERTY = 'C07'
LEVEL = 'other'
FS = 'checks.fam_str:'
EXPLANATION = (
    "Bounded symbolic verification of the numeric layer of from_str, executed from /repo's source with the tokeniser "
    "str_to_man_exp replaced by its contract (it returns (M, E) with literal value M*10^E): M is a symbolic integer of a given bit "
    "length (sign per obligation), E a concrete decimal exponent.  Exact branch (|E| <= 400): the result must be the canonical "
    "correctly rounded value of M*10^E -- for E >= 0 of the integer product, for E < 0 of the rational M/10^|E| (reference: "
    "bit-vector quotient with enough guard bits plus a sticky bit) -- in all five modes, including mantissas far longer than the "
    "precision (the double-rounding trap).  Approximate branch (|E| > 400): exercised by a documented cut (the interpreter lowers "
    "the constant 400 so that the branch runs with 8-digit powers of ten whose prec+10-bit approximation is inexact): the result "
    "must lie on the correct side of the exact decimal for the four directed modes and within 2 ulp.  The tokeniser itself is "
    "checked separately: str_to_man_exp runs on symbolic decimal strings (every digit symbolic, the positions of '.', 'e' and the "
    "signs fixed per literal shape; lower/rstrip/split/strip/len/int and the float() validation are modelled on such strings) and "
    "the returned (M, E) must denote exactly the value read off the digits independently -- this found F23 (mpf('.0') raised).  "
    "p/q literals go through from_rational = mpf_div (C02)."
)
TRUSTED = _c02.TRUSTED + ["contract of str_to_man_exp (returns (M, E) with literal value M*10^E) for the numeric-layer obligations; the contract itself is the subject of the tokeniser obligations on 20 literal shapes", "model of str methods on symbolic decimal strings (pysym/strings.py)", "cut: constant 400 lowered inside the interpreter for the approximate branch"]
ASSUMPTIONS = ["decimal exponent concrete per obligation; mantissa sign concrete per obligation"]
BUDGET = {'quick': dict(ob_deadline_s=100, total_s=160), 'thorough': dict(ob_deadline_s=600, total_s=1500)}
BOUNDS = {'quick': 'M up to 40 bits, E in -6..6 (exact branch), E = +-8 with the threshold lowered to 5 (approximate branch), prec 2..12'}


def obligations(tier, seed=0):
    obs = []
    thorough = tier == 'thorough'

    def add(**kw):
        if thorough:
            kw['_t'] = 600
        obs.append((FS + 'from_str_num', kw))
    for mbits, E, prec in [(8, 0, 4), (8, 3, 4), (8, -2, 4), (20, -3, 4), (30, -4, 4), (1, -1, 3), (3, -1, 8), (12, 2, 3), (32, -2, 10), (24, -6, 6), (5, 6, 10), (34, -3, 3)]:
        for rnd in RNDS:
            for mneg in (0, 1):
                add(mbits=mbits, E=E, prec=prec, rnd=rnd, mneg=mneg)
    for mbits, E, prec in [(20, 8, 2), (20, -8, 2), (12, 9, 3), (30, -9, 2)]:
        for rnd in RNDS:
            for mneg in (0, 1):
                add(mbits=mbits, E=E, prec=prec, rnd=rnd, mneg=mneg, limit=5)
    # the tokeniser on symbolic literals: every digit symbolic, positions of '.', 'e' and signs per shape
    shapes = ['D', 'DDD', 'D.D', 'D.DDD', 'DD.D0', '.D', '.DD', '-.DD', 'D.', 'DD.DeD', 'N.DDe-DD', 'DDeD', 'De+DD', '.DDeD', 'D.e+D', '-DD.De+DD', '+D.DDe-D',
              '0.0DD', '00D.D00', 'DDD.DD']
    if thorough:
        shapes += ['DDDDDDDDDDDDDDD', 'D.DDDDDDDDDDe-DDD', '-.DDDDDDDDe+DD', 'DDDDDD.DDDDDDeDDD', 'DDDDDDDDDDDD.DDDDDD']
    for sh in shapes:
        obs.append(('checks.fam_str:tokenise', dict(shape=sh)))
    if thorough:
        for mbits, E, prec in [(40, -2, 12), (60, -10, 24), (53, 15, 24), (100, -20, 53), (64, -5, 53)]:
            for rnd in RNDS:
                add(mbits=mbits, E=E, prec=prec, rnd=rnd, mneg=0)
    return obs
