"""C13 -- exact cases and special values of elementary functions (partial)."""
from vlib.oracle import RNDS
from checks import c02 as _c02

PROPERTY = 'C13'
LEVEL = 'other'
FE = 'checks.fam_elem:'
FA = 'checks.fam_arith:'
EXPLANATION = (
    "Bounded symbolic verification of the parts of C13 that are decidable by a solver: (a) the special-value prefixes of the "
    "elementary kernels mpf_exp, mpf_log, mpf_atan, mpf_cos/sin/tan, mpf_cosh/sinh/tanh, mpf_sqrt, mpf_asinh, mpf_atanh, mpf_asin "
    "executed from /repo's source on the special arguments (0, +-inf, nan, and 1 for log) with a SYMBOLIC precision in 1..4096 "
    "and each rounding mode: the documented exact value (exp(0)=1, exp(-inf)=0, log(1)=0, log(0)=-inf, sin(0)=0, cos(0)=1, "
    "atan(0)=0, tanh(+-inf)=+-1, nan for undefined) is returned at every precision; (b) sinpi/cospi/tan(pi x) at integers and "
    "half-integers: mpf_cos_sin(..., pi=True) for a symbolic mantissa and sign with binary exponent -1, 0 or positive returns "
    "exactly 0 / +1 / -1 with the sign determined by the mantissa mod 4, at every precision 1..4096; (c) square roots of values "
    "whose root is representable are exact (mpf_sqrt obligations with precise integer-square-root definition, shared with C02). "
    "Perfect cubes / n-th roots (Newton iteration), powm1, and finiteness of tan/cot/sec/csc next to multiples of pi/2 depend on "
    "series/iteration accuracy and are not covered."
)
TRUSTED = _c02.TRUSTED
ASSUMPTIONS = ["precision symbolic in [1, 4096] for (a),(b); (c) as in C02"]
BUDGET = {'quick': dict(ob_deadline_s=60, total_s=120), 'thorough': dict(ob_deadline_s=300, total_s=900)}
BOUNDS = {'quick': 'all entries of the special-value table x 5 rounding modes; sinpi/cospi mantissas of 1..12 bits, exponents -1, 0, 1, 5, which in 0..3; sqrt shapes 1..7 bits'}

def pi_special_grid(rnds, thorough=False):
    """special-value branches returning multiples of pi (shared by C13 and C14)"""
    out = []
    cases = [('mpf_atan2', [y, x]) for y in ('inf', 'ninf') for x in ('pos', 'neg', 'zero', 'inf', 'ninf')]
    cases += [('mpf_atan2', ['zero', x]) for x in ('pos', 'neg', 'zero', 'inf', 'ninf')]
    cases += [('mpf_atan2', [y, x]) for y in ('pos', 'neg') for x in ('inf', 'ninf', 'zero')]
    cases += [('mpf_atan', [a]) for a in ('inf', 'ninf', 'huge', 'nhuge')] + [('mpf_acos', ['none'])]
    for fn, args in cases:
        for rnd in rnds:
            out.append(('checks.fam_elem:pi_special', dict(fn=fn, args=args, prec=5 if rnd in 'fc' else 4, rnd=rnd)))
            if thorough:
                for prec in (2, 3, 24, 53):
                    out.append(('checks.fam_elem:pi_special', dict(fn=fn, args=args, prec=prec, rnd=rnd)))
    return out


def obligations(tier, seed=0):
    from checks.fam_elem import TABLE
    obs = []
    for (fn, a) in sorted(TABLE):
        for rnd in RNDS:
            obs.append((FE + 'special_value', dict(fn=fn, a=a, rnd=rnd)))
    for bc in (1, 2, 5, 12):
        for exp in (-1, 0, 1, 5):
            for which in (0, 1, 2, 3):
                for rnd in ('n', 'f', 'c'):
                    obs.append((FE + 'sincos_pi', dict(bc=bc, exp=exp, which=which, rnd=rnd)))
    for bc, prec in [(1, 3), (3, 3), (4, 3), (5, 4), (7, 2), (2, 6)]:
        for rnd in RNDS:
            for odd in (0, 1):
                obs.append((FA + 'sqrt', dict(bc=bc, prec=prec, rnd=rnd, odd=odd)))
    # the pure-Python integer square root with remainder behind exact square roots at high precision
    for bits in (4, 7, 10, 13):
        obs.append(('checks.fam_twin:sqrtrem_loops', dict(bits=bits)))
    obs += pi_special_grid(RNDS, tier == 'thorough')
    # powm1(x, y) is exactly 0 when x**y == 1
    for prec in (20, 53):
        obs.append((FE + 'powm1_exact', dict(case='y0', prec=prec)))
        for ye in (0, 1, 3):
            obs.append((FE + 'powm1_exact', dict(case='x1', yexp=ye, prec=prec)))
            obs.append((FE + 'powm1_exact', dict(case='xm1', yexp=ye, prec=prec)))
    return obs
