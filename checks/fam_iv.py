"""Families for real interval arithmetic (C14), interval comparisons (C16) and complex intervals (C15).

An endpoint *kind* is concrete per obligation: 'ninf', 'inf', 'zero', 'pos', 'neg' (finite kinds with a bit
length and an exponent offset relative to one symbolic base exponent).  Mantissas and the base exponent are
symbolic; the precondition lower <= upper is assumed (the interval constructor's invariant).
Containment is decided through the corner lemma: an interval [a, b] contains {x op y} iff a <= every corner
value and b >= every corner value (op in + - * /, 0 not in divisor) -- trusted base.
"""
import operator
from fractions import Fraction

import z3

from pysym import values as V
from pysym.values import G, SInt, SBool, bvv, zt, zb, binop, Unsupported
from pysym import mpmodels
from vlib.ob import Ob, add, sub
from vlib import oracle as O
from vlib.oracle import B, canonical, is_tuple, FZERO, FNAN, FINF, FNINF
from checks.fam_arith import finish, wbump, mk_tuple, libmpf, FALSE, TRUE, E30

SPEC = {'ninf': FNINF, 'inf': FINF, 'zero': FZERO}
NINF, PINF = 'ninf', 'inf'


def libmpi():
    from mpmath.libmp import libmpi as L
    return L


class End:
    """an interval endpoint: concrete kind + (for finite kinds) symbolic tuple and exact BV value at scale 2**unit"""
    def __init__(self, kind, tup, val):
        self.kind, self.tup, self.val = kind, tup, val


def mk_end(ob, name, spec, base, lo):
    kind = spec[0]
    if kind in SPEC:
        return End(kind, SPEC[kind], B(0) if kind == 'zero' else None)
    bc, off = spec[1], spec[2]
    sign = 1 if kind == 'neg' else 0
    t = ob.mpf(name, bc, exp=add(base, off), sign=sign)
    mag = zt(t[1]) << (off - lo)
    return End(kind, t, -mag if sign else mag)


def conc_end(m, name, spec, base):
    kind = spec[0]
    if kind in SPEC:
        return SPEC[kind]
    return mk_tuple(m, name, spec[1], exp=base + spec[2], sign=1 if kind == 'neg' else 0)


def spec_lo(*specs):
    return min([0] + [s[2] for s in specs if s[0] not in SPEC])


def spec_top(*specs):
    lo = spec_lo(*specs)
    return max([1] + [s[1] + s[2] - lo for s in specs if s[0] not in SPEC])


def le_end(a, b):
    """exact a <= b for two Ends at the same scale (z3 Bool)"""
    if a.kind == NINF or b.kind == PINF:
        return TRUE
    if a.kind == PINF or b.kind == NINF:
        return FALSE
    return a.val <= b.val


# ---- comparing a returned (possibly symbolic, possibly special) endpoint tuple with an exact value -------------
def _classify(res):
    s, m, e, b = [zt(x) for x in res]
    is_zero = z3.And(m == B(0), e == B(0))
    is_pinf = z3.And(m == B(0), e == B(-456))
    is_ninf = z3.And(m == B(0), e == B(-789))
    is_nan = z3.And(m == B(0), e == B(-123))
    return s, m, e, is_zero, is_pinf, is_ninf, is_nan


def res_cmp(res, Vv, unit, K, le=True):
    """value(res) <= V * 2**unit (le) or >= (not le).  V: BV or None (None: the exact bound is -inf for le / +inf for ge,
    which only the matching infinity satisfies).  K bounds |exponent(res) - unit| for finite results."""
    s, m, e, is_zero, is_pinf, is_ninf, is_nan = _classify(res)
    if Vv is None:
        return is_ninf if le else is_pinf
    d = e - unit
    sm = z3.If(s == B(1), -m, m)
    up = (sm << d)
    down = Vv << (-d)
    if le:
        fin = z3.If(d >= 0, z3.And(d <= B(K), up <= Vv), z3.And(-d <= B(K), sm <= down))
        zer = B(0) <= Vv
        return z3.If(is_nan, FALSE, z3.If(is_ninf, TRUE, z3.If(is_pinf, FALSE, z3.If(is_zero, zer, fin))))
    fin = z3.If(d >= 0, z3.And(d <= B(K), up >= Vv), z3.And(-d <= B(K), sm >= down))
    zer = B(0) >= Vv
    return z3.If(is_nan, FALSE, z3.If(is_pinf, TRUE, z3.If(is_ninf, FALSE, z3.If(is_zero, zer, fin))))


def res_is(res, tup):
    return is_tuple(res, tup)


def endpoint_ok(res, prec):
    """an endpoint is a canonical mpf (or a special that is not nan) with at most prec bits"""
    s, m, e, is_zero, is_pinf, is_ninf, is_nan = _classify(res)
    exact_special = z3.Or(is_tuple(res, FZERO), is_tuple(res, FINF), is_tuple(res, FNINF))
    return z3.And(z3.Not(is_nan), z3.Or(exact_special, z3.And(m != B(0), canonical(res, prec or None))))


def contains_goals(res, lows, highs, unit, K, prec):
    """res = (a, b); a <= every value in lows, b >= every value in highs (None = infinite bound)"""
    a, b = res
    goals = [endpoint_ok(a, prec), endpoint_ok(b, prec)]
    for v in lows:
        goals.append(res_cmp(a, v, unit, K, le=True))
    for v in highs:
        goals.append(res_cmp(b, v, unit, K, le=False))
    return goals


def _addv(x, y, sgn=1):
    """exact x + sgn*y for End values; returns ('ninf'|'inf'|BV)"""
    kx, ky = x.kind, y.kind
    if sgn < 0:
        ky = {NINF: PINF, PINF: NINF}.get(ky, ky)
    if kx in (NINF, PINF) or ky in (NINF, PINF):
        inf = [k for k in (kx, ky) if k in (NINF, PINF)]
        if NINF in inf and PINF in inf:
            return 'undef'
        return inf[0]
    return x.val + y.val if sgn > 0 else x.val - y.val


# ------------------------------------------------------------------------------ add / sub / neg / pos / abs
def iv_addsub(p):
    """mpi_add / mpi_sub / mpi_neg / mpi_pos / mpi_abs / mpi_delta / mpi_mid and the iv.mpf operators"""
    fn, prec = p['fn'], p['prec']
    ss, ts = p['s'], p.get('t', [['zero'], ['zero']])
    specs = list(ss) + list(ts)
    lo = spec_lo(*specs)
    top = spec_top(*specs) + 3
    ob = Ob(wbump(p, top + prec + 70), timeout_s=p.get('_t', 60))
    base = ob.int('base', -E30, E30)
    sa, sb = mk_end(ob, 'sa', ss[0], base, lo), mk_end(ob, 'sb', ss[1], base, lo)
    ta, tb = mk_end(ob, 'ta', ts[0], base, lo), mk_end(ob, 'tb', ts[1], base, lo)
    ob.assume.append(le_end(sa, sb))
    ob.assume.append(le_end(ta, tb))
    Li = libmpi()
    s, t = (sa.tup, sb.tup), (ta.tup, tb.tup)
    unary = fn in ('mpi_neg', 'mpi_pos', 'mpi_abs')
    entry = p.get('entry', 'libmp')
    if entry == 'libmp':
        outs = ob.run(getattr(Li, fn), [s, prec] if unary else [s, t, prec])
        unwrap = lambda v, st: v
    else:
        import mpmath
        iv = mpmath.iv
        iv.prec = prec
        so, to = iv.make_mpf(s), iv.make_mpf(t)
        meth = {'mpi_add': '__add__', 'mpi_sub': '__sub__', 'mpi_neg': '__neg__', 'mpi_pos': '__pos__', 'mpi_abs': '__abs__'}[fn]
        if entry == 'rop':
            meth = {'mpi_add': '__radd__', 'mpi_sub': '__rsub__'}[fn]
            outs = ob.run(getattr(iv.mpf, meth), [to, so])
        else:
            outs = ob.run(getattr(iv.mpf, meth), [so] if unary else [so, to])
        cls = iv.mpf

        def unwrap(v, st):
            if not isinstance(v, cls):
                return None
            h = st.heap.get((id(v), '_mpi_'))
            return h[1] if h is not None else v._mpi_
    unit = zt(base) + B(lo)
    K = top + prec + 6

    def tov(x):
        return None if isinstance(x, str) else x
    if fn == 'mpi_add':
        lows, highs = [_addv(sa, ta)], [_addv(sb, tb)]
    elif fn == 'mpi_sub':
        lows, highs = [_addv(sa, tb, -1)], [_addv(sb, ta, -1)]
    elif fn == 'mpi_neg':
        z = End('zero', FZERO, B(0))
        lows, highs = [_addv(z, sb, -1)], [_addv(z, sa, -1)]
    elif fn == 'mpi_pos':
        lows, highs = [sa.kind if sa.val is None else sa.val], [sb.kind if sb.val is None else sb.val]
    else:   # abs: contains |x| for every x in [sa, sb] : lower <= min|x|, upper >= |sa|, |sb|
        def absv(e):
            return 'inf' if e.val is None else z3.If(e.val < 0, -e.val, e.val)
        highs = [absv(sa), absv(sb)]
        if sa.kind in ('pos', 'zero'):
            lows = [absv(sa)]
        elif sb.kind in ('neg', 'zero'):
            lows = [absv(sb)]
        else:
            lows = [B(0)]
    if any(isinstance(v, str) and v == 'undef' for v in lows + highs):
        raise Unsupported('inf - inf endpoint combination (undefined exact bound)')

    def norm(vs, low):
        out = []
        for v in vs:
            if isinstance(v, str):
                # exact bound is infinite: -inf as a lower bound needs a == -inf; +inf as a lower bound cannot be required
                if (low and v == NINF) or (not low and v == PINF):
                    out.append(None)
                else:
                    raise Unsupported('degenerate infinite bound')
            else:
                out.append(v)
        return out
    lows, highs = norm(lows, True), norm(highs, False)

    def good(val, st):
        val = unwrap(val, st)
        if val is None or not isinstance(val, tuple) or len(val) != 2:
            return False
        return contains_goals(val, lows, highs, unit, K, prec)
    return finish(ob, ob.prove(outs, good))


def _frac_end(t, E0):
    if tuple(t) == FINF:
        return float('inf')
    if tuple(t) == FNINF:
        return float('-inf')
    if tuple(t) == FNAN:
        return float('nan')
    if tuple(t) == FZERO:
        return Fraction(0)
    return O.frac_of(t, E0)


def _concrete_contains(res, points, E0, prec):
    a, b = res
    for e in (a, b):
        if tuple(e) == FNAN:
            return False, 'nan endpoint %r' % (res,)
        if not O.canonical_concrete(tuple(e), prec or None):
            return False, 'non-canonical or too long endpoint %r' % (e,)
    fa, fb = _frac_end(a, E0), _frac_end(b, E0)
    for x in points:
        if not (fa <= x <= fb):
            return False, 'point %s (times 2**%d) outside returned interval [%s, %s]' % (x, E0, fa, fb)
    return True, ''


def iv_addsub_concrete(p, m):
    fn, prec = p['fn'], p['prec']
    ss, ts = p['s'], p.get('t', [['zero'], ['zero']])
    base = m.get('base', 0)
    s = (conc_end(m, 'sa', ss[0], base), conc_end(m, 'sb', ss[1], base))
    t = (conc_end(m, 'ta', ts[0], base), conc_end(m, 'tb', ts[1], base))
    Li = libmpi()
    unary = fn in ('mpi_neg', 'mpi_pos', 'mpi_abs')
    entry = p.get('entry', 'libmp')
    if entry == 'libmp':
        r = getattr(Li, fn)(*([s, prec] if unary else [s, t, prec]))
    else:
        import mpmath
        iv = mpmath.iv
        iv.prec = prec
        so, to = iv.make_mpf(s), iv.make_mpf(t)
        r = {'mpi_add': lambda: (to + so) if entry == 'rop' else (so + to), 'mpi_sub': lambda: (to - so) if entry == 'rop' else (so - to),
             'mpi_neg': lambda: -so, 'mpi_pos': lambda: +so, 'mpi_abs': lambda: abs(so)}[fn]()._mpi_
        if entry == 'rop':
            s, t = t, s
    E0 = base + spec_lo(*(list(ss) + list(ts)))
    S = [_frac_end(x, E0) for x in s]
    T = [_frac_end(x, E0) for x in t]
    pts = []
    import itertools
    for x, y in itertools.product(S, T):
        try:
            v = {'mpi_add': lambda: x + y, 'mpi_sub': lambda: x - y, 'mpi_neg': lambda: -x, 'mpi_pos': lambda: x, 'mpi_abs': lambda: abs(x)}[fn]()
        except Exception:
            continue
        if v == v:
            pts.append(v)
    if fn == 'mpi_abs' and S[0] <= 0 <= S[1]:
        pts.append(Fraction(0))
    return _concrete_contains(r, pts, E0, prec)


# ------------------------------------------------------------------------------ mul / square / div
def iv_muldiv(p):
    """mpi_mul / mpi_square / mpi_div / mpi_mul_mpf / mpi_div_mpf and iv.mpf * /  (finite or zero endpoints; small shapes, precise products)"""
    fn, prec = p['fn'], p['prec']
    ss, ts = p['s'], p.get('t', [['pos', 1, 0], ['pos', 1, 0]])
    specs = list(ss) + list(ts)
    if any(s[0] in (NINF, PINF) for s in specs):
        raise Unsupported('infinite endpoints are covered by the concrete table obligations only')
    lo = spec_lo(*specs)
    top = spec_top(*specs)
    npow = p.get('n', 2)
    ob = Ob(wbump(p, max(2, npow) * top + 2 * prec + 90), timeout_s=p.get('_t', 60), mul_precise_bits=4096,
            models=mpmodels.mp_models(contract_divmod=True, contract_sqrt=False))
    G.stats['DIV_PRECISE_BITS'] = 4096
    base = ob.int('base', -E30, E30) if fn != 'mpi_pow_int' else ob.int('base', -(1 << 20), 1 << 20)
    tbase = ob.int('tbase', -E30, E30)
    slo, tlo = spec_lo(*ss), spec_lo(*ts)
    sa, sb = mk_end(ob, 'sa', ss[0], base, slo), mk_end(ob, 'sb', ss[1], base, slo)
    ta, tb = mk_end(ob, 'ta', ts[0], tbase, tlo), mk_end(ob, 'tb', ts[1], tbase, tlo)
    ob.assume.append(le_end(sa, sb))
    ob.assume.append(le_end(ta, tb))
    Li = libmpi()
    s, t = (sa.tup, sb.tup), (ta.tup, tb.tup)
    entry = p.get('entry', 'libmp')
    point_t = fn in ('mpi_mul_mpf', 'mpi_div_mpf')
    if point_t:
        t = (ta.tup, ta.tup)
        tb = ta
    if entry == 'libmp':
        if fn == 'mpi_square':
            outs = ob.run(Li.mpi_square, [s, prec])
        elif fn == 'mpi_pow_int':
            outs = ob.run(Li.mpi_pow_int, [s, npow, prec])
        elif point_t:
            outs = ob.run(getattr(Li, fn), [s, ta.tup, prec])
        else:
            outs = ob.run(getattr(Li, fn), [s, t, prec])
        unwrap = lambda v, st: v
    else:
        import mpmath
        iv = mpmath.iv
        iv.prec = prec
        so, to = iv.make_mpf(s), iv.make_mpf(t)
        if fn == 'mpi_pow_int':
            outs = ob.run(iv.mpf.__pow__, [so, npow])
        else:
            meth = {'mpi_mul': '__mul__', 'mpi_div': '__truediv__'}[fn]
            outs = ob.run(getattr(iv.mpf, meth), [so, to])
        cls = iv.mpf

        def unwrap(v, st):
            if not isinstance(v, cls):
                return None
            h = st.heap.get((id(v), '_mpi_'))
            return h[1] if h is not None else v._mpi_
    W = G.W
    K = max(2, npow) * top + prec + 8
    if fn in ('mpi_mul', 'mpi_square', 'mpi_mul_mpf', 'mpi_pow_int'):
        if fn == 'mpi_pow_int':
            # {x**n : x in s}, n >= 2: monotone for odd n; for even n as for the square
            unit = (zt(base) + B(slo)) * B(npow)

            def pw(e):
                acc, hi = e.val, 1 << top
                for _ in range(npow - 1):
                    acc = V.narrow_mul(acc, e.val, (-hi, hi), (-(1 << top), 1 << top))
                    hi <<= top
                return acc
            pws = [pw(sa), pw(sb)]
            highs = pws
            straddle = ss[0][0] == 'neg' and ss[1][0] == 'pos'
            if npow % 2:
                lows = pws
            else:
                lows = [B(0)] if (straddle or 'zero' in (ss[0][0], ss[1][0])) else [pws[0] if ss[0][0] == 'pos' else pws[1]]
        elif fn == 'mpi_square':
            # {x*x : x in s}: lower bound 0 if 0 in s else min corner square; upper max(sa^2, sb^2)
            unit = zt(base) + zt(base) + B(2 * slo)
            sq = [V.narrow_mul(e.val, e.val, (-(1 << top), 1 << top), (-(1 << top), 1 << top)) for e in (sa, sb)]
            highs = sq
            straddle = ss[0][0] == 'neg' and ss[1][0] == 'pos'
            lows = [B(0)] if (straddle or 'zero' in (ss[0][0], ss[1][0])) else [sq[0] if ss[0][0] == 'pos' else sq[1]]
        else:
            unit = zt(base) + zt(tbase) + B(slo + tlo)
            bnd = (-(1 << top), 1 << top)
            corners = [V.narrow_mul(x.val, y.val, bnd, bnd) for x in (sa, sb) for y in (ta, tb)]
            lows = highs = corners

        def good(val, st):
            val = unwrap(val, st)
            if val is None:
                return False
            return contains_goals(val, lows, highs, unit, K, prec)
        return finish(ob, ob.prove(outs, good))
    # ---- division
    tk = (ts[0][0], (ts[1][0] if not point_t else ts[0][0]))
    sk = (ss[0][0], ss[1][0])
    t_strict = tk in (('pos', 'pos'), ('neg', 'neg'))
    t_straddle = tk[0] == 'neg' and tk[1] == 'pos'
    s_zero = sk == ('zero', 'zero')

    def good_div(val, st):
        val = unwrap(val, st)
        if val is None:
            return False
        a, b = val
        goals = [endpoint_ok(a, prec), endpoint_ok(b, prec)]
        if t_strict:
            # a <= x/y <= b for the four corners  <=>  a*y <= x <= b*y (y > 0) resp. reversed (y < 0): cross-multiplied
            # with the returned endpoints as symbolic finite values at their own exponents
            unit = zt(base) - zt(tbase) + B(slo - tlo)
            for x in (sa, sb):
                for y in (ta, tb):
                    goals.append(_div_bound(a, x.val, y.val, tk[0] == 'neg', unit, K, top, True))
                    goals.append(_div_bound(b, x.val, y.val, tk[0] == 'neg', unit, K, top, False))
            return goals
        if s_zero and tk not in (('zero', 'zero'),) and not t_straddle and 'zero' not in tk:
            return goals + [res_is(a, FZERO), res_is(b, FZERO)]
        # divisor contains zero: the quotient set is unbounded on at least one side; a sound answer must contain it
        if t_straddle or tk == ('zero', 'zero') or s_zero or (sk[0] == 'neg' and sk[1] == 'pos'):
            return goals + [res_is(a, FNINF), res_is(b, FINF)]
        # t = [0, tb] (or [ta, 0]) and s of one sign: half line
        tpos = tk[0] == 'zero'           # t = [0, tb], tb > 0
        spos = sk[0] in ('pos', 'zero') and sk[1] == 'pos'
        unit = zt(base) - zt(tbase) + B(slo - tlo)
        y = tb if tpos else ta
        if spos == tpos:
            # quotients are >= sa/tb (resp. sb/ta): lower bound finite, upper +inf
            x = sa if tpos else sb
            return goals + [res_is(b, FINF), _div_bound(a, x.val, y.val, not tpos, unit, K, top, True)]
        x = sb if tpos else sa
        return goals + [res_is(a, FNINF), _div_bound(b, x.val, y.val, not tpos, unit, K, top, False)]
    return finish(ob, ob.prove(outs, good_div))


def _div_bound(res, x, y, yneg, unit, K, top, lower):
    """value(res) <= x/y (lower) or >= x/y, for finite res, via cross multiplication at BV level.
    res value = sm * 2**e ; x/y is at scale 2**unit.  Compare sm*2**(e-unit) * y  vs  x  (flip for y < 0)."""
    s, m, e, is_zero, is_pinf, is_ninf, is_nan = _classify(res)
    d = e - unit
    sm = z3.If(s == B(1), -m, m)
    bnd = (-(1 << (top + K + 2)), 1 << (top + K + 2))
    # d >= 0: (sm << d) * y ? x        d < 0: sm * y ? (x << -d)
    lhs_up = V.narrow_mul(sm << d, y, bnd, (-(1 << top), 1 << top))
    lhs_dn = V.narrow_mul(sm, y, bnd, (-(1 << top), 1 << top))
    rhs_dn = x << (-d)
    le = (lower != yneg)       # multiplying by negative y flips the inequality
    if le:
        c_up, c_dn = lhs_up <= x, lhs_dn <= rhs_dn
    else:
        c_up, c_dn = lhs_up >= x, lhs_dn >= rhs_dn
    fin = z3.If(d >= 0, z3.And(d <= B(K), c_up), z3.And(-d <= B(K), c_dn))
    zero_ok = (B(0) <= x) if le else (B(0) >= x)       # res == 0: 0*y ? x
    inf_ok = is_ninf if lower else is_pinf
    return z3.If(is_nan, FALSE, z3.If(inf_ok, TRUE, z3.If(z3.Or(is_pinf, is_ninf), FALSE, z3.If(is_zero, zero_ok, fin))))


def iv_muldiv_concrete(p, m):
    import itertools
    fn, prec = p['fn'], p['prec']
    ss, ts = p['s'], p.get('t', [['pos', 1, 0], ['pos', 1, 0]])
    base, tbase = m.get('base', 0), m.get('tbase', 0)
    s = (conc_end(m, 'sa', ss[0], base), conc_end(m, 'sb', ss[1], base))
    t = (conc_end(m, 'ta', ts[0], tbase), conc_end(m, 'tb', ts[1], tbase))
    point_t = fn in ('mpi_mul_mpf', 'mpi_div_mpf')
    if point_t:
        t = (t[0], t[0])
    Li = libmpi()
    if p.get('entry', 'libmp') == 'libmp':
        if fn == 'mpi_square':
            r = Li.mpi_square(s, prec)
        elif fn == 'mpi_pow_int':
            r = Li.mpi_pow_int(s, p.get('n', 2), prec)
        elif point_t:
            r = getattr(Li, fn)(s, t[0], prec)
        else:
            r = getattr(Li, fn)(s, t, prec)
    else:
        import mpmath
        iv = mpmath.iv
        iv.prec = prec
        so, to = iv.make_mpf(s), iv.make_mpf(t)
        r = (so ** p.get('n', 2) if fn == 'mpi_pow_int' else so * to if fn == 'mpi_mul' else so / to)._mpi_
    slo, tlo = spec_lo(*ss), spec_lo(*ts)
    S = [_frac_end(x, base + slo) for x in s]
    T = [_frac_end(x, tbase + tlo) for x in t]
    if fn == 'mpi_pow_int':
        n = p.get('n', 2)
        E0 = n * (base + slo)
        pts = [S[0] ** n, S[1] ** n] + ([Fraction(0)] if S[0] <= 0 <= S[1] else [])
        return _concrete_contains(r, pts, E0, prec)
    if fn == 'mpi_square':
        E0 = 2 * (base + slo)
        pts = [S[0] * S[0], S[1] * S[1]] + ([Fraction(0)] if S[0] <= 0 <= S[1] else [])
        return _concrete_contains(r, pts, E0, prec)
    if fn in ('mpi_mul', 'mpi_mul_mpf'):
        E0 = base + slo + tbase + tlo
        return _concrete_contains(r, [x * y for x in S for y in T], E0, prec)
    E0 = base + slo - tbase - tlo
    if T[0] <= 0 <= T[1]:
        # divisor contains 0: sample points of the (unbounded) quotient set
        pts = []
        for x in S + [(S[0] + S[1]) / 2]:
            for y in [T[0], T[1], T[0] / 3, T[1] / 3, T[0] / 1000, T[1] / 1000]:
                if y != 0:
                    pts.append(x / y)
        ok, d = _concrete_contains(r, pts, E0, prec)
        if ok and not (S[0] == S[1] == 0 and not (T[0] < 0 < T[1]) and T[0] != T[1]):
            fa, fb = _frac_end(r[0], E0), _frac_end(r[1], E0)
            big = max(abs(x) for x in S) * 10 ** 6 + 1
            unb = []
            for x in S:
                for y in (T[0], T[1]):
                    if y != 0 and x != 0:
                        unb.append(x / (y / 10 ** 9))
            for v in unb:
                if not (fa <= v <= fb):
                    return False, 'quotient %s not contained in %r' % (v, (fa, fb))
        return ok, d
    return _concrete_contains(r, [x / y for x in S for y in T], E0, prec)


# ------------------------------------------------------------------------------ comparisons (C16)
def iv_cmp(p):
    """mpi_lt / mpi_le / mpi_gt / mpi_ge, and the operators / `in` / == of iv.mpf: exact three-valued table"""
    fn = p['fn']
    ss, ts = p['s'], p['t']
    specs = list(ss) + list(ts)
    lo = spec_lo(*specs)
    top = spec_top(*specs) + 3
    ob = Ob(wbump(p, top + 70), timeout_s=p.get('_t', 60))
    base = ob.int('base', -E30, E30)
    sa, sb = mk_end(ob, 'sa', ss[0], base, lo), mk_end(ob, 'sb', ss[1], base, lo)
    ta, tb = mk_end(ob, 'ta', ts[0], base, lo), mk_end(ob, 'tb', ts[1], base, lo)
    ob.assume.append(le_end(sa, sb))
    ob.assume.append(le_end(ta, tb))
    s, t = (sa.tup, sb.tup), (ta.tup, tb.tup)
    if p.get('alias'):
        # an interval compared with ITSELF (the same endpoint tuple / the same object): x < x is None unless x is a point
        ta, tb, t = sa, sb, s
    Li = libmpi()
    entry = p.get('entry', 'libmp')
    if entry == 'libmp':
        outs = ob.run(getattr(Li, fn), [s, t])
        rel = {'mpi_lt': '<', 'mpi_le': '<=', 'mpi_gt': '>', 'mpi_ge': '>=', 'mpi_eq': '==', 'mpi_ne': '!='}[fn]
    else:
        import mpmath
        iv = mpmath.iv
        iv.prec = 53
        so, to = iv.make_mpf(s), iv.make_mpf(t)
        if p.get('alias'):
            to = so
        meth = {'<': '__lt__', '<=': '__le__', '>': '__gt__', '>=': '__ge__', '==': '__eq__', '!=': '__ne__', 'in': '__contains__'}[fn]
        outs = ob.run(getattr(iv.mpf, meth), [to, so] if fn == 'in' else [so, to])
        rel = fn

    def lt(a, b):
        return z3.Not(le_end(b, a))
    # True iff the relation holds for every pair; False iff it fails for every pair
    if rel == '<':
        all_, none_ = lt(sb, ta), le_end(tb, sa)
    elif rel == '<=':
        all_, none_ = le_end(sb, ta), lt(tb, sa)
    elif rel == '>':
        all_, none_ = lt(tb, sa), le_end(sb, ta)
    elif rel == '>=':
        all_, none_ = le_end(tb, sa), lt(sb, ta)
    elif rel in ('==', '!='):
        same = z3.And(le_end(sa, ta), le_end(ta, sa), le_end(sb, tb), le_end(tb, sb))
        all_, none_ = (same, z3.Not(same)) if rel == '==' else (z3.Not(same), same)
    else:   # s in t  <=> ta <= sa and sb <= tb
        inside = z3.And(le_end(ta, sa), le_end(sb, tb))
        all_, none_ = inside, z3.Not(inside)

    def good(val, st):
        if val is None:
            return z3.And(z3.Not(all_), z3.Not(none_))
        if val is True or val is False:
            return all_ if val else none_
        if isinstance(val, SBool):
            return z3.And(z3.Implies(val.t, all_), z3.Implies(z3.Not(val.t), none_))
        return False
    return finish(ob, ob.prove(outs, good))


def iv_cmp_concrete(p, m):
    fn = p['fn']
    ss, ts = p['s'], p['t']
    base = m.get('base', 0)
    s = (conc_end(m, 'sa', ss[0], base), conc_end(m, 'sb', ss[1], base))
    t = (conc_end(m, 'ta', ts[0], base), conc_end(m, 'tb', ts[1], base))
    if p.get('alias'):
        t = s
    Li = libmpi()
    if p.get('entry', 'libmp') == 'libmp':
        r = getattr(Li, fn)(s, t)
        rel = {'mpi_lt': '<', 'mpi_le': '<=', 'mpi_gt': '>', 'mpi_ge': '>=', 'mpi_eq': '==', 'mpi_ne': '!='}[fn]
    else:
        import mpmath
        iv = mpmath.iv
        so, to = iv.make_mpf(s), iv.make_mpf(t)
        if p.get('alias'):
            to = so
        r = {'<': lambda: so < to, '<=': lambda: so <= to, '>': lambda: so > to, '>=': lambda: so >= to, '==': lambda: so == to,
             '!=': lambda: so != to, 'in': lambda: so in to}[fn]()
        rel = fn
    E0 = base + spec_lo(*(list(ss) + list(ts)))
    S = [_frac_end(x, E0) for x in s]
    T = [_frac_end(x, E0) for x in t]
    if rel == '<':
        want = True if S[1] < T[0] else False if S[0] >= T[1] else None
    elif rel == '<=':
        want = True if S[1] <= T[0] else False if S[0] > T[1] else None
    elif rel == '>':
        want = True if S[0] > T[1] else False if S[1] <= T[0] else None
    elif rel == '>=':
        want = True if S[0] >= T[1] else False if S[1] < T[0] else None
    elif rel == '==':
        want = S == T
    elif rel == '!=':
        want = S != T
    else:
        want = T[0] <= S[0] and S[1] <= T[1]
    return r is want or (r == want and r is not None and want is not None), '%s(%r, %r) = %r, definition gives %r' % (fn, s, t, r, want)


# ------------------------------------------------------------------------------ complex intervals (C15)
def ivc_arith(p):
    """mpci_add / mpci_sub / mpci_neg / mpci_pos / mpci_mul / mpci_square and the iv.mpc operators: each part of the returned
    rectangle contains the exact part for every corner of the operand rectangles (multilinear forms attain their extremes
    over a box at its corners)."""
    fn, prec = p['fn'], p['prec']
    xs, ys = p['x'], p.get('y', [[['zero'], ['zero']], [['zero'], ['zero']]])     # [[re_lo, re_hi], [im_lo, im_hi]]
    flat = [e for part in xs for e in part] + [e for part in ys for e in part]
    if any(s[0] in (NINF, PINF) for s in flat):
        raise Unsupported('finite rectangles only')
    lo = spec_lo(*flat)
    top = spec_top(*flat)
    mul = fn in ('mpci_mul', 'mpci_square')
    ob = Ob(wbump(p, (2 * top if mul else top) + 2 * prec + 90), timeout_s=p.get('_t', 60), mul_precise_bits=4096)
    base = ob.int('base', -E30, E30)
    names = iter(['xa', 'xb', 'xc', 'xd', 'ya', 'yb', 'yc', 'yd'])
    E = [mk_end(ob, next(names), s, base, lo) for s in flat]
    xa, xb, xc, xd, ya, yb, yc, yd = E
    for l, h in ((xa, xb), (xc, xd), (ya, yb), (yc, yd)):
        ob.assume.append(le_end(l, h))
    X = ((xa.tup, xb.tup), (xc.tup, xd.tup))
    Y = ((ya.tup, yb.tup), (yc.tup, yd.tup))
    Li = libmpi()
    entry = p.get('entry', 'libmp')
    unary = fn in ('mpci_neg', 'mpci_pos', 'mpci_square')
    if entry == 'libmp':
        outs = ob.run(getattr(Li, fn), [X, prec] if unary else [X, Y, prec])
        unwrap = lambda v, st: v
    else:
        import mpmath
        iv = mpmath.iv
        iv.prec = prec
        xo, yo = iv.make_mpc(X), iv.make_mpc(Y)
        meth = {'mpci_add': '__add__', 'mpci_sub': '__sub__', 'mpci_mul': '__mul__', 'mpci_neg': '__neg__', 'mpci_pos': '__pos__'}[fn]
        outs = ob.run(getattr(iv.mpc, meth), [xo] if unary else [xo, yo])
        cls = iv.mpc

        def unwrap(v, st):
            if not isinstance(v, cls):
                return None
            h = st.heap.get((id(v), '_mpci_'))
            return h[1] if h is not None else v._mpci_
    K = (2 * top if mul else top) + prec + 8
    if not mul:
        unit = zt(base) + B(lo)
        sg = -1 if fn == 'mpci_sub' else 1
        if fn == 'mpci_add' or fn == 'mpci_sub':
            re_l, re_h = [xa.val + sg * (ya.val if sg > 0 else yb.val)], [xb.val + sg * (yb.val if sg > 0 else ya.val)]
            im_l, im_h = [xc.val + sg * (yc.val if sg > 0 else yd.val)], [xd.val + sg * (yd.val if sg > 0 else yc.val)]
        elif fn == 'mpci_neg':
            re_l, re_h, im_l, im_h = [-xb.val], [-xa.val], [-xd.val], [-xc.val]
        else:
            re_l, re_h, im_l, im_h = [xa.val], [xb.val], [xc.val], [xd.val]
    else:
        unit = zt(base) + zt(base) + B(2 * lo)
        bnd = (-(1 << top), 1 << top)

        def mulv(u, v):
            return V.narrow_mul(u, v, bnd, bnd)
        res, ims = [], []
        if fn == 'mpci_square':
            for a_ in (xa, xb):
                for b_ in (xc, xd):
                    res.append(mulv(a_.val, a_.val) - mulv(b_.val, b_.val))
                    ims.append(mulv(a_.val, b_.val) << 1)
            # a^2 - b^2 is not multilinear: interior minimum of a^2 (resp. b^2) at 0 when the interval straddles zero
            for a_ in ((xa, xb) if not (xs[0][0][0] == 'neg' and xs[0][1][0] == 'pos') else ()):
                pass
            zero_a = xs[0][0][0] in ('neg', 'zero') and xs[0][1][0] in ('pos', 'zero')
            zero_b = xs[1][0][0] in ('neg', 'zero') and xs[1][1][0] in ('pos', 'zero')
            if zero_a:
                for b_ in (xc, xd):
                    res.append(-mulv(b_.val, b_.val))
            if zero_b:
                for a_ in (xa, xb):
                    res.append(mulv(a_.val, a_.val))
            if zero_a and zero_b:
                res.append(B(0))
        else:
            for a_ in (xa, xb):
                for b_ in (xc, xd):
                    for c_ in (ya, yb):
                        for d_ in (yc, yd):
                            res.append(mulv(a_.val, c_.val) - mulv(b_.val, d_.val))
                            ims.append(mulv(a_.val, d_.val) + mulv(b_.val, c_.val))
        re_l = re_h = res
        im_l = im_h = ims

    def good(val, st):
        val = unwrap(val, st)
        if val is None or not isinstance(val, tuple) or len(val) != 2:
            return False
        return contains_goals(val[0], re_l, re_h, unit, K, prec) + contains_goals(val[1], im_l, im_h, unit, K, prec)
    return finish(ob, ob.prove(outs, good))


def ivc_arith_concrete(p, m):
    import itertools
    fn, prec = p['fn'], p['prec']
    xs, ys = p['x'], p.get('y', [[['zero'], ['zero']], [['zero'], ['zero']]])
    flat = [e for part in xs for e in part] + [e for part in ys for e in part]
    base = m.get('base', 0)
    names = ['xa', 'xb', 'xc', 'xd', 'ya', 'yb', 'yc', 'yd']
    T = [conc_end(m, n, s, base) for n, s in zip(names, flat)]
    X = ((T[0], T[1]), (T[2], T[3]))
    Y = ((T[4], T[5]), (T[6], T[7]))
    Li = libmpi()
    unary = fn in ('mpci_neg', 'mpci_pos', 'mpci_square')
    if p.get('entry', 'libmp') == 'libmp':
        r = getattr(Li, fn)(*([X, prec] if unary else [X, Y, prec]))
    else:
        import mpmath
        iv = mpmath.iv
        iv.prec = prec
        xo, yo = iv.make_mpc(X), iv.make_mpc(Y)
        r = {'mpci_add': lambda: xo + yo, 'mpci_sub': lambda: xo - yo, 'mpci_mul': lambda: xo * yo, 'mpci_neg': lambda: -xo, 'mpci_pos': lambda: +xo}[fn]()._mpci_
    lo = spec_lo(*flat)
    E0 = base + lo
    F = [_frac_end(t, E0) for t in T]
    mul = fn in ('mpci_mul', 'mpci_square')

    def grid(l, h):
        return [l, h, (l + h) / 2, (2 * l + h) / 3] + ([Fraction(0)] if l <= 0 <= h else [])
    res, ims = [], []
    for a in grid(F[0], F[1]):
        for b in grid(F[2], F[3]):
            if unary:
                z = {'mpci_neg': (-a, -b), 'mpci_pos': (a, b), 'mpci_square': (a * a - b * b, 2 * a * b)}[fn]
                res.append(z[0]); ims.append(z[1])
                continue
            for c in grid(F[4], F[5]):
                for d in grid(F[6], F[7]):
                    z = {'mpci_add': (a + c, b + d), 'mpci_sub': (a - c, b - d), 'mpci_mul': (a * c - b * d, a * d + b * c)}[fn]
                    res.append(z[0]); ims.append(z[1])
    sh = 2 * E0 if mul else E0
    ok, d = _concrete_contains(r[0], res, sh, prec)
    if ok:
        ok, d = _concrete_contains(r[1], ims, sh, prec)
    return ok, d


def iv_cmp_num(p):
    """interval <op> plain Python int (operators of iv.mpf with a number on the right or left): the number denotes itself
    exactly, however long its mantissa is.  Soundness: True only if the relation holds for every point of the interval,
    False only if it fails for every point (None is always acceptable for a number that is not representable)."""
    fn, ss, nbc, nneg, prec = p['fn'], p['s'], p['nbc'], p.get('nneg', 0), p['prec']
    lo = min(spec_lo(*ss), 0)
    top = max(spec_top(*ss), nbc - lo) + 3
    ob = Ob(wbump(p, top + 70), timeout_s=p.get('_t', 60))
    sa, sb = mk_end(ob, 'sa', ss[0], 0, lo), mk_end(ob, 'sb', ss[1], 0, lo)
    ob.assume.append(le_end(sa, sb))
    na = ob.int('n_abs', 1 << (nbc - 1), (1 << nbc) - 1) if nbc > 1 else 1
    n = V.neg(na) if nneg else na
    nv = zt(n) << (-lo)
    import mpmath
    iv = mpmath.iv
    iv.prec = prec
    so = iv.make_mpf((sa.tup, sb.tup))
    meth = {'<': '__lt__', '<=': '__le__', '>': '__gt__', '>=': '__ge__', '==': '__eq__', '!=': '__ne__'}[fn]
    outs = ob.run(getattr(iv.mpf, meth), [so, n])
    N = End('num', None, nv)

    def lt(a, b):
        return z3.Not(le_end(b, a))
    if fn == '<':
        all_, none_ = lt(sb, N), le_end(N, sa)
    elif fn == '<=':
        all_, none_ = le_end(sb, N), lt(N, sa)
    elif fn == '>':
        all_, none_ = lt(N, sa), le_end(sb, N)
    elif fn == '>=':
        all_, none_ = le_end(N, sa), lt(sb, N)
    else:
        same = z3.And(le_end(sa, N), le_end(N, sa), le_end(sb, N), le_end(N, sb))
        all_, none_ = (same, z3.Not(same)) if fn == '==' else (z3.Not(same), same)

    def good(val, st):
        if val is None or val is NotImplemented:
            return True
        if val is True or val is False:
            return all_ if val else none_
        if isinstance(val, SBool):
            return z3.And(z3.Implies(val.t, all_), z3.Implies(z3.Not(val.t), none_))
        return False
    return finish(ob, ob.prove(outs, good))


def iv_cmp_num_concrete(p, m):
    import mpmath
    iv = mpmath.iv
    iv.prec = p['prec']
    ss = p['s']
    s = (conc_end(m, 'sa', ss[0], 0), conc_end(m, 'sb', ss[1], 0))
    na = m.get('n_abs', 1)
    n = -na if p.get('nneg') else na
    so = iv.make_mpf(s)
    fn = p['fn']
    r = {'<': lambda: so < n, '<=': lambda: so <= n, '>': lambda: so > n, '>=': lambda: so >= n, '==': lambda: so == n, '!=': lambda: so != n}[fn]()
    S = [_frac_end(x, 0) for x in s]
    if fn == '<':
        all_, none_ = S[1] < n, S[0] >= n
    elif fn == '<=':
        all_, none_ = S[1] <= n, S[0] > n
    elif fn == '>':
        all_, none_ = S[0] > n, S[1] <= n
    elif fn == '>=':
        all_, none_ = S[0] >= n, S[1] < n
    elif fn == '==':
        all_, none_ = S[0] == S[1] == n, not (S[0] == S[1] == n)
    else:
        all_, none_ = not (S[0] == S[1] == n), S[0] == S[1] == n
    ok = r is None or (r is True and all_) or (r is False and none_)
    return ok, 'iv %r %s %d -> %r at iv.prec=%d, but the relation %s' % (S, fn, n, r, p['prec'], 'does not hold for every point' if r else 'does not fail for every point')
