"""Families for complex arithmetic (C04) -- libmpc algebraic routines and the mpc type's operators."""
import operator
from fractions import Fraction

import z3

from pysym import values as V
from pysym.values import G, SInt, SBool, bvv, zt, zb, binop, Unsupported
from vlib.ob import Ob, add, sub
from vlib import oracle as O
from vlib.oracle import B, ref_round, canonical, is_tuple, value_matches, FZERO, FNAN, FINF, FNINF
from checks.fam_arith import finish, wbump, mk_tuple, libmpf, FALSE, TRUE, E30, _ctx, aspect_good


def libmpc():
    from mpmath.libmp import libmpc as L
    return L


def signed(neg, mag):
    return z3.If(neg, -mag, mag)


def rounded_ok(val, X, base, prec, rnd, top, aspect='round'):
    """val is the canonical correctly rounded mpf of the exact signed value X * 2**base (X: BV, |X| < 2**top)"""
    def full():
        A = z3.If(X < 0, -X, X)
        R = ref_round(A, FALSE, prec, rnd, X < 0, 1, top) if prec else A
        return z3.If(X == B(0), is_tuple(val, FZERO), value_matches(val, X < 0, R, base, top + 1, prec or None))
    return aspect_good(aspect, val, prec, full)


def neg_of(x):
    return zt(x[0]) == B(1)


def cshape(ob, p, name, bcs, offs, base=None):
    """complex operand with component bit lengths bcs=(re,im), im exponent = re exponent + offs (concrete);
    bc 0 means an exact zero component"""
    e = ob.int(name + "_exp", -p.get("E", E30), p.get("E", E30)) if base is None else base
    re = ob.mpf(name + '_re', bcs[0], exp=e) if bcs[0] else FZERO
    im = ob.mpf(name + '_im', bcs[1], exp=add(e, offs)) if bcs[1] else FZERO
    return (re, im), e


def cconc(m, name, bcs, offs, base=None):
    e = m.get(name + '_exp', 0) if base is None else base
    re = mk_tuple(m, name + '_re', bcs[0], exp=e) if bcs[0] else FZERO
    im = mk_tuple(m, name + '_im', bcs[1], exp=e + offs) if bcs[1] else FZERO
    return (re, im)


def _unwrap_mpc(cls):
    def unwrap(v, st):
        if not isinstance(v, cls):
            return None
        h = st.heap.get((id(v), '_mpc_'))
        return h[1] if h is not None else v._mpc_
    return unwrap


def _term(x, shift):
    """(neg, magnitude<<shift) of an mpf component (zero component -> (False, 0))"""
    if x == FZERO:
        return (FALSE, B(0))
    return (neg_of(x), zt(x[1]) << shift)


# ------------------------------------------------------------------------------ add / sub (complex-complex, complex-real)
def caddsub(p):
    """mpc_add / mpc_sub / mpc_add_mpf / mpc_sub_mpf and the operator / fadd routes"""
    zb_, wb_, zo, wo, off, prec, rnd, fn = p['zbc'], p['wbc'], p['zoff'], p['woff'], p['off'], p['prec'], p['rnd'], p['fn']
    mx = max(max(zb_), max(wb_)) + abs(off) + abs(zo) + abs(wo)
    ob = Ob(wbump(p, mx + 70), timeout_s=p.get('_t', 60))
    w, we = cshape(ob, p, 'w', wb_, wo)
    z, ze = cshape(ob, p, 'z', zb_, zo, base=add(we, off))
    Lc = libmpc()
    real_rhs = fn in ('mpc_add_mpf', 'mpc_sub_mpf')
    entry = p.get('entry', 'libmp')
    subtract = 'sub' in fn
    if entry == 'libmp':
        outs = ob.run(getattr(Lc, fn), [z, w[0] if real_rhs else w, prec, rnd])
        unwrap = lambda v, st: v
    else:
        mp = _ctx(prec if entry in ('op', 'rop') else 53)
        zo_ = mp.make_mpc(z)
        wo_ = mp.make_mpf(w[0]) if real_rhs else mp.make_mpc(w)
        if entry == 'op':
            outs = ob.run(getattr(mp.mpc, '__sub__' if subtract else '__add__'), [zo_, wo_])
        elif entry == 'rop':     # mpf (+|-) mpc through the mpf operator
            outs = ob.run(getattr(mp.mpf, '__sub__' if subtract else '__add__'), [wo_, zo_])
        elif entry == 'rf':      # fadd/fsub(real, complex, prec=, rounding=)
            outs = ob.run(mp.fsub if subtract else mp.fadd, [wo_, zo_], dict(prec=prec, rounding=rnd))
        else:
            outs = ob.run(mp.fsub if subtract else mp.fadd, [zo_, wo_], dict(prec=prec, rounding=rnd))
        unwrap = _unwrap_mpc(mp.mpc)
    # exact components at the common scale 2**(we + lowest offset)
    lo = min(0, off, off + zo, wo)
    base = zt(we) + B(lo)
    swap = entry in ('rop', 'rf')          # computes w - z

    def comp(zc, zsh, wc, wsh):
        zn, zm = _term(zc, zsh - lo)
        wn, wm = _term(wc, wsh - lo)
        a, b = signed(zn, zm), signed(wn, wm)
        if swap:
            a, b = b, a
        return a - b if subtract else a + b
    Xre = comp(z[0], off, w[0], 0)
    if real_rhs:
        Xim = comp(z[1], off + zo, FZERO, 0)
        if swap and subtract:
            pass
    else:
        Xim = comp(z[1], off + zo, w[1], wo)
    top = mx + 4

    # known finding F3 (open): mpc_add_mpf / mpc_sub_mpf hand the imaginary part back unrounded.  With _known='F3' the
    # obligation is weakened to exactly that behaviour (imaginary part returned untouched) so that any OTHER deviation in
    # the same region is still reported as a violation.
    f3 = p.get('_known') == 'F3' and real_rhs and not (subtract and entry in ('rop', 'rf'))

    def good(val, st):
        val = unwrap(val, st)
        if val is None:
            return False
        re, im = val
        asp = p.get('aspect', 'round')
        if f3:
            return [rounded_ok(re, Xre, base, prec, rnd, top, asp), z3.And([zt(a) == zt(b) for a, b in zip(im, z[1])])]
        return [rounded_ok(re, Xre, base, prec, rnd, top, asp), rounded_ok(im, Xim, base, prec, rnd, top, asp)]
    return finish(ob, ob.prove(outs, good))


def caddsub_concrete(p, m):
    zb_, wb_, zo, wo, off, prec, rnd, fn = p['zbc'], p['wbc'], p['zoff'], p['woff'], p['off'], p['prec'], p['rnd'], p['fn']
    w = cconc(m, 'w', wb_, wo)
    z = cconc(m, 'z', zb_, zo, base=m.get('w_exp', 0) + off)
    Lc = libmpc()
    real_rhs = fn in ('mpc_add_mpf', 'mpc_sub_mpf')
    subtract = 'sub' in fn
    entry = p.get('entry', 'libmp')
    if entry == 'libmp':
        r = getattr(Lc, fn)(z, w[0] if real_rhs else w, prec, rnd)
    else:
        mp = _ctx(prec if entry in ('op', 'rop') else 53)
        try:
            zo_ = mp.make_mpc(z)
            wo_ = mp.make_mpf(w[0]) if real_rhs else mp.make_mpc(w)
            if entry == 'op':
                r = (zo_ - wo_) if subtract else (zo_ + wo_)
            elif entry == 'rop':
                r = (wo_ - zo_) if subtract else (wo_ + zo_)
            elif entry == 'rf':
                r = (mp.fsub if subtract else mp.fadd)(wo_, zo_, prec=prec, rounding=rnd)
            else:
                r = (mp.fsub if subtract else mp.fadd)(zo_, wo_, prec=prec, rounding=rnd)
            r = r._mpc_
        finally:
            mp.prec = 53
    E0 = m.get('w_exp', 0)
    zr, zi = O.frac_of(z[0], E0) if z[0] != FZERO else 0, O.frac_of(z[1], E0) if z[1] != FZERO else 0
    wr, wi = O.frac_of(w[0], E0) if w[0] != FZERO else 0, (O.frac_of(w[1], E0) if (w[1] != FZERO and not real_rhs) else 0)
    if entry in ('rop', 'rf'):
        zr, zi, wr, wi = wr, wi, zr, zi
    er, ei = (zr - wr, zi - wi) if subtract else (zr + wr, zi + wi)
    ok1, d1 = O.check_rounded(r[0], Fraction(er), prec, rnd, shift=E0)
    if p.get('_known') == 'F3' and real_rhs and not (subtract and entry in ('rop', 'rf')):
        ok2, d2 = tuple(r[1]) == tuple(z[1]), 'imaginary part %r is neither rounded nor the untouched operand %r' % (r[1], z[1])
    else:
        ok2, d2 = O.check_rounded(r[1], Fraction(ei), prec, rnd, shift=E0)
    return ok1 and ok2, ('re: ' + d1 if not ok1 else '') + (' im: ' + d2 if not ok2 else '')


# ------------------------------------------------------------------------------ mul
def cmul(p):
    """mpc_mul / mpc_square / mpc_mul_mpf / operator and fmul routes: each part is the correctly rounded exact component"""
    zb_, wb_, zo, wo, prec, rnd, fn = p['zbc'], p['wbc'], p['zoff'], p['woff'], p['prec'], p['rnd'], p['fn']
    if fn == 'mpc_square':
        wb_, wo = zb_, zo            # the second operand IS the first: sizes for the width/range bounds must be z's
    tot = max(zb_) + max(wb_)
    precise = p.get("precise", tot <= 12)
    mx = tot + abs(zo) + abs(wo)
    ob = Ob(wbump(p, mx + 70), timeout_s=p.get('_t', 60), mul_precise_bits=(64 if precise else 0))
    z, ze = cshape(ob, p, 'z', zb_, zo)
    Lc = libmpc()
    entry = p.get('entry', 'libmp')
    if fn == 'mpc_square':
        w, we, wo = z, ze, zo
    else:
        w, we = cshape(ob, p, 'w', wb_, wo)
    real_rhs = fn == 'mpc_mul_mpf'
    if entry == 'libmp':
        if fn == 'mpc_square':
            outs = ob.run(Lc.mpc_square, [z, prec, rnd])
        else:
            outs = ob.run(getattr(Lc, fn), [z, w[0] if real_rhs else w, prec, rnd])
        unwrap = lambda v, st: v
    else:
        mp = _ctx(prec if entry in ('op', 'rop') else 53)
        zo_ = mp.make_mpc(z)
        wo_ = mp.make_mpf(w[0]) if real_rhs else mp.make_mpc(w)
        if entry == 'op':
            outs = ob.run(mp.mpc.__mul__, [zo_, wo_])
        elif entry == 'rop':
            outs = ob.run(mp.mpf.__mul__, [wo_, zo_])
        else:
            outs = ob.run(mp.fmul, [zo_, wo_], dict(prec=prec, rounding=rnd))
        unwrap = _unwrap_mpc(mp.mpc)
    a, b = z
    c, d = w

    def prod(x, y):
        if x == FZERO or y == FZERO:
            return None
        return (z3.Xor(neg_of(x), neg_of(y)), zt(V.sym_mul(x[1], y[1])))
    lo = min(0, zo) + min(0, wo)
    base = zt(ze) + zt(we) + B(lo)

    def lin(terms):
        X = B(0)
        for sgn, pr, sh in terms:
            if pr is None:
                continue
            v = signed(pr[0], pr[1] << (sh - lo))
            X = X + v if sgn > 0 else X - v
        return X
    if real_rhs:
        Xre = lin([(1, prod(a, c), 0)])
        Xim = lin([(1, prod(b, c), zo)])
    else:
        Xre = lin([(1, prod(a, c), 0), (-1, prod(b, d), zo + wo)])
        Xim = lin([(1, prod(a, d), wo), (1, prod(b, c), zo)])
    top = mx + 6

    def good(val, st):
        val = unwrap(val, st)
        if val is None:
            return False
        re, im = val
        asp = p.get('aspect', 'round')
        return [rounded_ok(re, Xre, base, prec, rnd, top, asp), rounded_ok(im, Xim, base, prec, rnd, top, asp)]
    return finish(ob, ob.prove(outs, good))


def cmul_concrete(p, m):
    zb_, wb_, zo, wo, prec, rnd, fn = p['zbc'], p['wbc'], p['zoff'], p['woff'], p['prec'], p['rnd'], p['fn']
    z = cconc(m, 'z', zb_, zo)
    w = z if fn == 'mpc_square' else cconc(m, 'w', wb_, wo)
    Lc = libmpc()
    real_rhs = fn == 'mpc_mul_mpf'
    entry = p.get('entry', 'libmp')
    if entry == 'libmp':
        r = Lc.mpc_square(z, prec, rnd) if fn == 'mpc_square' else getattr(Lc, fn)(z, w[0] if real_rhs else w, prec, rnd)
    else:
        mp = _ctx(prec if entry in ('op', 'rop') else 53)
        try:
            zo_ = mp.make_mpc(z)
            wo_ = mp.make_mpf(w[0]) if real_rhs else mp.make_mpc(w)
            r = (zo_ * wo_ if entry == 'op' else wo_ * zo_ if entry == 'rop' else mp.fmul(zo_, wo_, prec=prec, rounding=rnd))._mpc_
        finally:
            mp.prec = 53
    ez, ew = m.get('z_exp', 0), m.get('z_exp', 0) if fn == 'mpc_square' else m.get('w_exp', 0)
    f = lambda t, e: O.frac_of(t, e) if t != FZERO else Fraction(0)
    a, b, c, d = f(z[0], ez), f(z[1], ez), f(w[0], ew), (Fraction(0) if real_rhs else f(w[1], ew))
    er, ei = a * c - b * d, a * d + b * c
    ok1, d1 = O.check_rounded(r[0], er, prec, rnd, shift=ez + ew)
    ok2, d2 = O.check_rounded(r[1], ei, prec, rnd, shift=ez + ew)
    return ok1 and ok2, ('re: ' + d1 if not ok1 else '') + (' im: ' + d2 if not ok2 else '')


def cmul_int(p):
    zb_, zo, nbc, nneg, prec, rnd = p['zbc'], p['zoff'], p['nbc'], p['nneg'], p['prec'], p['rnd']
    precise = max(zb_) + nbc <= 24
    ob = Ob(wbump(p, max(zb_) + nbc + abs(zo) + 70), timeout_s=p.get('_t', 60), mul_precise_bits=(64 if precise else 0))
    z, ze = cshape(ob, p, 'z', zb_, zo)
    na = ob.int('n_abs', 1 << (nbc - 1), (1 << nbc) - 1) if nbc > 1 else 1
    n = V.neg(na) if nneg else na
    outs = ob.run(libmpc().mpc_mul_int, [z, n, prec, rnd])
    lo = min(0, zo)
    base = zt(ze) + B(lo)

    def comp(x, sh):
        if x == FZERO:
            return B(0)
        neg = z3.Xor(neg_of(x), z3.BoolVal(bool(nneg)))
        return signed(neg, zt(V.sym_mul(x[1], na)) << (sh - lo))
    Xre, Xim = comp(z[0], 0), comp(z[1], zo)
    top = max(zb_) + nbc + abs(zo) + 4

    def good(val, st):
        re, im = val
        return [rounded_ok(re, Xre, base, prec, rnd, top), rounded_ok(im, Xim, base, prec, rnd, top)]
    return finish(ob, ob.prove(outs, good))


def cmul_int_concrete(p, m):
    z = cconc(m, 'z', p['zbc'], p['zoff'])
    na = 1 if p['nbc'] == 1 else m['n_abs']
    n = -na if p['nneg'] else na
    r = libmpc().mpc_mul_int(z, n, p['prec'], p['rnd'])
    ez = m.get('z_exp', 0)
    f = lambda t: O.frac_of(t, ez) if t != FZERO else Fraction(0)
    ok1, d1 = O.check_rounded(r[0], f(z[0]) * n, p['prec'], p['rnd'], shift=ez)
    ok2, d2 = O.check_rounded(r[1], f(z[1]) * n, p['prec'], p['rnd'], shift=ez)
    return ok1 and ok2, d1 + d2


# ------------------------------------------------------------------------------ unary
def cunary(p):
    """mpc_pos / mpc_neg / mpc_conjugate / componentwise floor, ceil, nint, frac"""
    zb_, zo, prec, rnd, fn = p['zbc'], p['zoff'], p['prec'], p['rnd'], p['fn']
    ob = Ob(wbump(p, max(zb_) + abs(zo) + 70), timeout_s=p.get('_t', 60))
    z, ze = cshape(ob, p, 'z', zb_, zo)
    entry = p.get('entry', 'libmp')
    if entry == 'libmp':
        outs = ob.run(getattr(libmpc(), fn), [z, prec, rnd])
        unwrap = lambda v, st: v
    else:
        mp = _ctx(prec)
        meth = {'mpc_pos': '__pos__', 'mpc_neg': '__neg__', 'mpc_conjugate': 'conjugate'}[fn]
        outs = ob.run(getattr(mp.mpc, meth), [mp.make_mpc(z)])
        unwrap = _unwrap_mpc(mp.mpc)
    lo = min(0, zo)
    base = zt(ze) + B(lo)
    sre = {'mpc_pos': 1, 'mpc_neg': -1, 'mpc_conjugate': 1}[fn]
    sim = {'mpc_pos': 1, 'mpc_neg': -1, 'mpc_conjugate': -1}[fn]

    def comp(x, sh, sg):
        if x == FZERO:
            return B(0)
        v = signed(neg_of(x), zt(x[1]) << (sh - lo))
        return v if sg > 0 else -v
    Xre, Xim = comp(z[0], 0, sre), comp(z[1], zo, sim)
    top = max(zb_) + abs(zo) + 3

    def good(val, st):
        val = unwrap(val, st)
        if val is None:
            return False
        re, im = val
        ok_re = rounded_ok(re, Xre, base, prec, rnd, top, p.get('aspect', 'round'))
        if fn == 'mpc_conjugate':
            # the real part of conjugate() is documented/implemented as the operand's real part unchanged
            ok_re = z3.And([zt(x) == zt(y) for x, y in zip(re, z[0])])
        return [ok_re, rounded_ok(im, Xim, base, prec, rnd, top, p.get('aspect', 'round'))]
    return finish(ob, ob.prove(outs, good))


def cunary_concrete(p, m):
    z = cconc(m, 'z', p['zbc'], p['zoff'])
    fn, prec, rnd = p['fn'], p['prec'], p['rnd']
    if p.get('entry', 'libmp') == 'libmp':
        r = getattr(libmpc(), fn)(z, prec, rnd)
    else:
        mp = _ctx(prec)
        try:
            zo_ = mp.make_mpc(z)
            r = {'mpc_pos': lambda: +zo_, 'mpc_neg': lambda: -zo_, 'mpc_conjugate': lambda: zo_.conjugate()}[fn]()._mpc_
        finally:
            mp.prec = 53
    ez = m.get('z_exp', 0)
    f = lambda t: O.frac_of(t, ez) if t != FZERO else Fraction(0)
    sre = -1 if fn == 'mpc_neg' else 1
    sim = 1 if fn == 'mpc_pos' else -1
    if fn == 'mpc_conjugate':
        ok1, d1 = (tuple(r[0]) == tuple(z[0])), 'real part changed'
    else:
        ok1, d1 = O.check_rounded(r[0], sre * f(z[0]), prec, rnd, shift=ez)
    ok2, d2 = O.check_rounded(r[1], sim * f(z[1]), prec, rnd, shift=ez)
    return ok1 and ok2, (d1 if not ok1 else '') + (d2 if not ok2 else '')


# ------------------------------------------------------------------------------ equality
def _ceq_rhs(ob, p, w):
    """right-hand operand of the requested Python type denoting the complex value w (components of w carry the symbolic bits)"""
    from pysym.models import SFloat, SComplex
    rhs = p.get('rhs', 'mpc')
    mp = _ctx(53)
    if rhs == 'mpc':
        return mp.make_mpc(w)
    if rhs == 'mpf':
        return mp.make_mpf(w[0])

    def ival(x):
        return V.merge(neg_of(x), V.neg(x[1]), x[1]) if not isinstance(x[0], int) else (V.neg(x[1]) if x[0] else x[1])
    if rhs == 'int':
        return ival(w[0])
    if rhs == 'float':
        return SFloat(ival(w[0]), w[0][2])
    if rhs == 'complex':
        im = SFloat(ival(w[1]), w[1][2]) if w[1] != FZERO else 0.0
        return SComplex(SFloat(ival(w[0]), w[0][2]), im)
    raise Unsupported('rhs ' + rhs)


def ceq(p):
    """_mpc.__eq__ / __ne__ against mpc, mpf (imaginary part must be zero), and Python int / float / complex.
    For the Python-typed right-hand sides the base exponent of w is concrete (`wexp`, default 0) and the signs of w's
    components are part of the shape (`wneg`): the float model needs a mantissa of fixed bit length."""
    zb_, wb_, zo, wo, off, fn = p['zbc'], p['wbc'], p['zoff'], p['woff'], p['off'], p['fn']
    mx = max(max(zb_), max(wb_)) + abs(off) + abs(zo) + abs(wo)
    ob = Ob(wbump(p, mx + 70), timeout_s=p.get('_t', 60))
    rhs = p.get('rhs', 'mpc')
    if rhs in ('mpc', 'mpf'):
        w, we = cshape(ob, p, 'w', wb_, wo)
    else:
        we = p.get('wexp', 0)
        wn = p.get('wneg', [0, 0])
        w = (ob.mpf('w_re', wb_[0], exp=we, sign=wn[0]) if wb_[0] else FZERO,
             ob.mpf('w_im', wb_[1], exp=we + wo, sign=wn[1]) if wb_[1] and rhs == 'complex' else FZERO)
    z, ze = cshape(ob, p, 'z', zb_, zo, base=add(we, off))
    mp = _ctx(53)
    zo_ = mp.make_mpc(z)
    wo_ = _ceq_rhs(ob, p, w)
    outs = ob.run(getattr(mp.mpc, fn), [zo_, wo_])
    lo = min(0, off, off + zo, wo)

    def val(x, sh):
        n, mg = _term(x, sh - lo)
        return signed(n, mg)
    eq_re = val(z[0], off) == val(w[0], 0)
    eq_im = val(z[1], off + zo) == (val(w[1], wo) if rhs in ('mpc', 'complex') else B(0))
    want = z3.And(eq_re, eq_im)
    if fn == '__ne__':
        want = z3.Not(want)
    return finish(ob, ob.prove(outs, lambda v, st: (zb(v) == want) if isinstance(v, (bool, SBool)) else False))


def ceq_concrete(p, m):
    import math
    rhs = p.get('rhs', 'mpc')
    if rhs in ('mpc', 'mpf'):
        w = cconc(m, 'w', p['wbc'], p['woff'])
        E0 = m.get('w_exp', 0)
    else:
        E0 = p.get('wexp', 0)
        wn = p.get('wneg', [0, 0])
        w = (mk_tuple(m, 'w_re', p['wbc'][0], exp=E0, sign=wn[0]) if p['wbc'][0] else FZERO,
             mk_tuple(m, 'w_im', p['wbc'][1], exp=E0 + p['woff'], sign=wn[1]) if p['wbc'][1] and rhs == 'complex' else FZERO)
    z = cconc(m, 'z', p['zbc'], p['zoff'], base=E0 + p['off'])
    mp = _ctx(53)
    zo_ = mp.make_mpc(z)
    f = lambda t: O.frac_of(t, E0) if t != FZERO else Fraction(0)
    fl = lambda t: math.ldexp(-t[1] if t[0] else t[1], t[2]) if t != FZERO else 0.0
    if rhs == 'mpc':
        wo_ = mp.make_mpc(w)
    elif rhs == 'mpf':
        wo_ = mp.make_mpf(w[0])
    elif rhs == 'int':
        wo_ = (-w[0][1] if w[0][0] else w[0][1]) << w[0][2]
    elif rhs == 'float':
        wo_ = fl(w[0])
    else:
        wo_ = complex(fl(w[0]), fl(w[1]))
    r = (zo_ == wo_) if p['fn'] == '__eq__' else (zo_ != wo_)
    same = f(z[0]) == f(w[0]) and f(z[1]) == (f(w[1]) if rhs in ('mpc', 'complex') else 0)
    want = same if p['fn'] == '__eq__' else not same
    return r == want, 'mpc %r %s %r -> %r, exact %r' % (z, p['fn'], wo_, r, want)


# ------------------------------------------------------------------------------ wrapper obligations with kernel stubs (C10)
def nthroot_bits(p):
    """mpc_nthroot(z, n, prec, rnd): whatever the Newton kernel (mpc_nthroot_fixed) or the power kernel (mpc_pow) returns,
    the parts handed back carry at most `prec` bits.  Kernels are stubs returning arbitrary values of the working size."""
    from pysym import mpmodels
    from pysym.engine import NORMAL
    n, prec, rnd = p['n'], p['prec'], p['rnd']
    Lc = libmpc()
    prec2 = int(1.2 * (prec + 10))
    ob = Ob(wbump(p, prec2 + 80), timeout_s=p.get('_t', 60), models=mpmodels.mp_models(contract_divmod=True, contract_sqrt=True), mul_precise_bits=0)
    a = ob.mpf('a', 5, exp=p.get('aexp', -3))
    b = ob.mpf('b', 4, exp=p.get('bexp', -2))
    R = ob.int('R', -(1 << (prec2 + 12)), 1 << (prec2 + 12))
    I = ob.int('I', -(1 << (prec2 + 12)), 1 << (prec2 + 12))

    def m_fixed(eng, st, args, kw, fr):
        return [(st, NORMAL, (R, I))]
    wp = prec + 20
    pr, pi_ = ob.mpf('pr', wp), ob.mpf('pi', wp)

    def m_pow(eng, st, args, kw, fr):
        return [(st, NORMAL, (pr, pi_))]
    ob.eng.models[Lc.mpc_nthroot_fixed] = m_fixed
    ob.eng.models[Lc.mpc_pow] = m_pow
    mag = ob.mpf('absz', min(prec, 8), exp=ob.int('absz_exp', -prec - 30, prec + 30), sign=0)     # |z|: only its magnitude class matters here

    def m_abs(eng, st, args, kw, fr):
        return [(st, NORMAL, mag)]
    ob.eng.models[Lc.mpc_abs] = m_abs
    outs = ob.run(Lc.mpc_nthroot, [(a, b), n, prec, rnd])

    # known finding F11 (open): the Newton path rounds to prec2 = int(1.2*(prec+10)) instead of prec.  Weakened re-run: at most
    # prec2 bits (exactly the recorded behaviour); anything longer is still a violation.
    limit = prec2 if p.get('_known') == 'F11' else prec

    def good(val, st):
        if not isinstance(val, tuple) or len(val) != 2:
            return False
        return [z3.Or(is_tuple(c, FZERO), canonical(c, limit)) for c in val]
    return finish(ob, ob.prove(outs, good))


def nthroot_bits_concrete(p, m):
    Lc = libmpc()
    a = mk_tuple(m, 'a', 5, exp=p.get('aexp', -3))
    b = mk_tuple(m, 'b', 4, exp=p.get('bexp', -2))
    r = Lc.mpc_nthroot((a, b), p['n'], p['prec'], p['rnd'])
    limit = int(1.2 * (p['prec'] + 10)) if p.get('_known') == 'F11' else p['prec']
    bad = [c for c in r if not O.canonical_concrete(tuple(c), limit)]
    return not bad, 'mpc_nthroot(%r, %d, prec=%d) returned parts with %s bits' % ((a, b), p['n'], p['prec'], [c[3] for c in r])


# ------------------------------------------------------------------------------ z ** n (n >= 0, exact path)
def _cpow_terms(z, zoff, n):
    """exact (a + b i)**n as two signed BVs at scale 2**(n*(e+lo)), lo = min(0, zoff)"""
    lo = min(0, zoff)
    a, b = z
    am = signed(neg_of(a), zt(a[1]) << (0 - lo)) if a != FZERO else B(0)
    bm = signed(neg_of(b), zt(b[1]) << (zoff - lo)) if b != FZERO else B(0)
    re, im = B(1), B(0)
    for _ in range(n):
        re, im = re * am - im * bm, im * am + re * bm
    return re, im, lo


def cpow_int(p):
    """mpc_pow_int(z, n, prec, rnd) / z ** n for 0 <= n on the exact path (exact size < 10000 bits): each part is the correctly
    rounded exact component of (a+bi)**n.  Pure-imaginary bases (the i**n rotation branch) with rounding to nearest."""
    zb_, zo, n, prec, rnd = p['zbc'], p['zoff'], p['n'], p['prec'], p['rnd']
    mx = n * (max(zb_) + abs(zo)) + n + 2
    ob = Ob(wbump(p, mx + prec + 70), timeout_s=p.get('_t', 60), mul_precise_bits=4096)
    z, ze = cshape(ob, p, 'z', zb_, zo)
    Lc = libmpc()
    entry = p.get('entry', 'libmp')
    if entry == 'libmp':
        outs = ob.run(Lc.mpc_pow_int, [z, n, prec, rnd])
        unwrap = lambda v, st: v
    else:
        mp = _ctx(prec)
        outs = ob.run(mp.mpc.__pow__, [mp.make_mpc(z), n])
        unwrap = _unwrap_mpc(mp.mpc)
    Xre, Xim, lo = _cpow_terms(z, zo, n)
    base = (zt(ze) + B(lo)) * B(n)

    def good(val, st):
        val = unwrap(val, st)
        if val is None:
            return False
        re, im = val
        if n == 0:
            return [is_tuple(re, (0, 1, 0, 1)), is_tuple(im, FZERO)]
        return [rounded_ok(re, Xre, base, prec, rnd, mx), rounded_ok(im, Xim, base, prec, rnd, mx)]
    return finish(ob, ob.prove(outs, good))


def cpow_int_concrete(p, m):
    zb_, zo, n, prec, rnd = p['zbc'], p['zoff'], p['n'], p['prec'], p['rnd']
    z = cconc(m, 'z', zb_, zo)
    Lc = libmpc()
    if p.get('entry', 'libmp') == 'libmp':
        r = Lc.mpc_pow_int(z, n, prec, rnd)
    else:
        mp = _ctx(prec)
        try:
            r = (mp.make_mpc(z) ** n)._mpc_
        finally:
            mp.prec = 53
    ez = m.get('z_exp', 0)
    f = lambda t: O.frac_of(t, ez) if t != FZERO else Fraction(0)
    a, b = f(z[0]), f(z[1])
    er, ei = Fraction(1), Fraction(0)
    for _ in range(n):
        er, ei = er * a - ei * b, ei * a + er * b
    res = []
    for part, ex, nm in ((r[0], er, 're'), (r[1], ei, 'im')):
        if n == 0:
            want = (0, 1, 0, 1) if nm == 're' else FZERO
            ok, d = tuple(part) == want, '%r' % (part,)
        elif ex == 0:
            ok, d = tuple(part) == FZERO, 'exact part is zero, got %r' % (part,)
        else:
            ok, d = O.check_rounded(part, ex, prec, rnd, shift=ez * n)
        if not ok:
            res.append(nm + ': ' + d)
    return not res, ' '.join(res)


# ------------------------------------------------------------------------------ division, reciprocal (relative error in modulus)
def cdiv(p):
    """mpc_div / mpc_reciprocal / mpc_mpf_div / z / w: the result q satisfies |q*w - z| <= 4 * 2**-prec * |z| (i.e. a relative
    error of at most 4 units in the last place in modulus -- 'a few ulps'), both parts are canonical with at most prec bits.
    mpc_div_mpf (division by a real): each part is the correctly rounded quotient.  All mantissas and signs symbolic, relative
    exponents concrete; the error inequality is decided on exact integers (cross-multiplied, no division)."""
    from pysym import mpmodels
    zb_, wb_, zo, wo, prec, rnd, fn = p['zbc'], p['wbc'], p['zoff'], p['woff'], p['prec'], p['rnd'], p['fn']
    M = p.get('margin', 20)
    mx = max(zb_) + max(wb_) + abs(zo) + abs(wo)
    ob = Ob(wbump(p, 2 * (mx + prec + M) + 90), timeout_s=p.get('_t', 60), mul_precise_bits=4096,
            models=mpmodels.mp_models(contract_divmod=True, contract_sqrt=False))
    G.stats['DIV_PRECISE_BITS'] = 4096
    z, ze = cshape(ob, p, 'z', zb_, zo)
    w, we = cshape(ob, p, 'w', wb_, wo)
    Lc = libmpc()
    entry = p.get('entry', 'libmp')
    if fn == 'mpc_reciprocal':
        z = ((0, 1, 0, 1), FZERO)
        ze = 0
        zo, zb_ = 0, [1, 0]
        outs = ob.run(Lc.mpc_reciprocal, [w, prec, rnd])
    elif fn == 'mpc_mpf_div':
        z = (z[0], FZERO)
        zb_ = [zb_[0], 0]
        outs = ob.run(Lc.mpc_mpf_div, [z[0], w, prec, rnd])
    elif entry == 'op':
        mp = _ctx(prec)
        outs = ob.run(mp.mpc.__truediv__, [mp.make_mpc(z), mp.make_mpc(w)])
    else:
        outs = ob.run(Lc.mpc_div, [z, w, prec, rnd])
    unwrap = _unwrap_mpc(_ctx(prec).mpc) if entry == 'op' else (lambda v, st: v)
    zlo, wlo = min(0, zo), min(0, wo)

    def part(x, sh):
        n, mg = _term(x, sh)
        return signed(n, mg)
    A, Bq = part(z[0], 0 - zlo), part(z[1], zo - zlo)          # z = (A + iB) * 2**(ze + zlo)
    C, D = part(w[0], 0 - wlo), part(w[1], wo - wlo)           # w = (C + iD) * 2**(we + wlo)
    SH = prec + M
    E0 = zt(ze) + B(zlo) - zt(we) - B(wlo) - B(SH)             # scale of the result integers

    def good(val, st):
        val = unwrap(val, st)
        if val is None:
            return False
        goals = []
        Q = []
        rng = []
        for c in val:
            rs, rm, re, rb = [zt(t) for t in c]
            dd = re - E0
            ok_rng = z3.Or(rm == B(0), z3.And(dd >= B(0), dd <= B(SH + mx + 8)))
            rng.append(ok_rng)
            Q.append(z3.If(rm == B(0), B(0), signed(rs == B(1), rm << dd)))
            goals.append(z3.Or(is_tuple(c, FZERO), canonical(c, prec)))
        Qr, Qi = Q
        R = Qr * C - Qi * D - (A << SH)
        I = Qr * D + Qi * C - (Bq << SH)
        lhs = (R * R + I * I) << (2 * prec)
        rhs = ((A * A + Bq * Bq) << (2 * SH)) << 4
        inr = z3.And(rng)
        return goals + [inr, z3.Implies(inr, lhs <= rhs)]
    return finish(ob, ob.prove(outs, good))


def cdiv_concrete(p, m):
    zb_, wb_, zo, wo, prec, rnd, fn = p['zbc'], p['wbc'], p['zoff'], p['woff'], p['prec'], p['rnd'], p['fn']
    z = cconc(m, 'z', zb_, zo)
    w = cconc(m, 'w', wb_, wo)
    Lc = libmpc()
    f = lambda t: O.frac_of(t) if t != FZERO else Fraction(0)
    if fn == 'mpc_reciprocal':
        z = ((0, 1, 0, 1), FZERO)
        r = Lc.mpc_reciprocal(w, prec, rnd)
    elif fn == 'mpc_mpf_div':
        z = (z[0], FZERO)
        r = Lc.mpc_mpf_div(z[0], w, prec, rnd)
    elif p.get('entry') == 'op':
        mp = _ctx(prec)
        try:
            r = (mp.make_mpc(z) / mp.make_mpc(w))._mpc_
        finally:
            mp.prec = 53
    else:
        r = Lc.mpc_div(z, w, prec, rnd)
    a, b, c, d = f(z[0]), f(z[1]), f(w[0]), f(w[1])
    qr, qi = f(r[0]), f(r[1])
    R, I = qr * c - qi * d - a, qr * d + qi * c - b
    ok = (R * R + I * I) * Fraction(4) ** prec <= 16 * (a * a + b * b)
    okc = all(t == FZERO or O.canonical_concrete(tuple(t), prec) for t in r)
    return ok and okc, '%s(%r, %r, %d, %r) = %r: |q*w - z| / |z| = %.3g * 2**-%d' % (fn, z, w, prec, rnd, r, float(((R * R + I * I) / (a * a + b * b))) ** 0.5 * 2 ** prec, prec)


# ------------------------------------------------------------------------------ integer powers of special complex values
def cpow_int_special(p):
    """mpc_pow_int(z, n, prec, rnd) where one part of z is a special value (zero / +inf / -inf / nan), the other a special or a
    symbolic regular number, for a concrete exponent n: every part of the result is stored in canonical form
    (one of the four special encodings, or a normalised regular number of at most prec bits)."""
    from checks.fam_arith import SPECIALS
    prec, rnd = p['prec'], p['rnd']
    n = p['n']
    ob = Ob(wbump(p, 2 * (abs(n) + 1) * (p.get('bc', 3) + 2) + 2 * prec + 120), timeout_s=p.get('_t', 60), mul_precise_bits=4096)
    parts = []
    for nm, kind in (('re', p['re']), ('im', p['im'])):
        parts.append(ob.mpf(nm, p.get('bc', 3)) if kind == 'fin' else SPECIALS[kind])
    Lc = libmpc()
    outs = ob.run(Lc.mpc_pow_int, [tuple(parts), n, prec, rnd])

    def canon(t):
        if not isinstance(t, tuple) or len(t) != 4:
            return False
        return z3.Or([is_tuple(t, s_) for s_ in (FZERO, O.FINF, O.FNINF, O.FNAN)] + [O.canonical(t, prec)])

    def good(val, st):
        if not isinstance(val, tuple) or len(val) != 2:
            return False
        return [canon(val[0]), canon(val[1])]

    def good_raise(exc, st):
        # 0 ** negative: ZeroDivisionError is the documented outcome
        return [z3.BoolVal(isinstance(exc, ZeroDivisionError))]
    return finish(ob, ob.prove(outs, good, good_raise))


def cpow_int_special_concrete(p, m):
    from checks.fam_arith import SPECIALS
    prec, rnd = p['prec'], p['rnd']
    parts = []
    for nm, kind in (('re', p['re']), ('im', p['im'])):
        parts.append(mk_tuple(m, nm, p.get('bc', 3)) if kind == 'fin' else SPECIALS[kind])
    n = p['n']
    try:
        r = libmpc().mpc_pow_int(tuple(parts), n, prec, rnd)
    except ZeroDivisionError:
        return True, ''
    bad = [t for t in r if not O.canonical_concrete(tuple(t), prec)]
    return not bad, 'mpc_pow_int(%r, %d, %d, %r) = %r: part %r is not in canonical form' % (tuple(parts), n, prec, rnd, r, bad[:1])
