"""C05 -- comparisons are exact and equal numbers hash equally."""
from checks import c02 as _c02

PROPERTY = 'C05'
LEVEL = 'other'
FC = 'checks.fam_cmp:'
EXPLANATION = (
    "Bounded symbolic verification.  mpf_cmp / mpf_lt / mpf_le / mpf_gt / mpf_ge / mpf_eq (including the mpf_sub(s,t,5,floor) "
    "fallback), the comparison operators of the mpf type against mpf, Python ints (mpf_convert_rhs/from_int) and Python floats (dyadic float model, from_float), and the "
    "nan/inf/zero cases are executed symbolically from /repo's source and compared with the sign of the exact scaled difference "
    "for ALL mantissas and signs of each operand shape.  Hashing: mpf_hash/_mpf.__hash__ composed with a model of CPython's "
    "slot_tp_hash post-processing is proved equal to the documented numeric hash (value mod 2^61-1 with inverse powers of two, "
    "sign, -1 -> -2) -- which is what hash(int) and hash(float) of the equal number return; mpc_hash/_mpc.__hash__ is proved equal "
    "to CPython's complex combination rule on the component hashes (so im == 0 gives the hash of the real part).  Counterexamples "
    "are replayed with the real hash() on real objects against hash(int)/hash(complex)."
)
TRUSTED = _c02.TRUSTED + ["model of CPython slot_tp_hash: a __hash__ result outside Py_ssize_t is replaced by hash(int); -1 -> -2",
                          "documented numeric hash definition (sys.hash_info: modulus 2^61-1, imag multiplier 1000003, width 64)"]
ASSUMPTIONS = _c02.ASSUMPTIONS + ["hash obligations: binary exponent concrete per obligation (grid), mantissa symbolic"]
BUDGET = {'quick': dict(ob_deadline_s=100, total_s=240), 'thorough': dict(ob_deadline_s=600, total_s=1500)}
BOUNDS = {'quick': 'comparison operands up to 30 bits, offsets -40..40, ints to 62 bits (longer than the context precision), floats incl. subnormal and huge exponents; hash mantissas up to 64 bits, exponents -62..130',
          'thorough': 'comparison operands up to 120 bits; hash exponents to -130 and 200-bit mantissas'}


def obligations(tier, seed=0):
    obs = []
    thorough = tier == 'thorough'

    def add(fam, **kw):
        if thorough:
            kw['_t'] = 600
        obs.append((FC + fam, kw))
    shapes = [(1, 1, 0), (1, 1, 1), (5, 5, 0), (5, 7, 2), (7, 5, -2), (6, 3, 3), (3, 6, -3), (5, 5, 1), (4, 9, -5), (9, 4, 5), (20, 30, -10), (8, 8, 40), (8, 8, -40),
              (3, 3, 2), (2, 5, -3)]
    if thorough:
        shapes += [(53, 53, 1), (53, 53, 0), (64, 30, -34), (120, 119, 1), (24, 24, -1), (100, 7, 93), (7, 100, -93)]
    for sbc, tbc, off in shapes:
        for fn in ('mpf_cmp', 'mpf_lt', 'mpf_le', 'mpf_gt', 'mpf_ge', 'mpf_eq'):
            add('cmp', sbc=sbc, tbc=tbc, off=off, fn=fn)
    for sbc, tbc, off in [(5, 7, 2), (5, 5, 0), (6, 3, 3), (1, 1, 0)]:
        for fn in ('<', '<=', '>', '>=', '==', '!='):
            add('cmp', sbc=sbc, tbc=tbc, off=off, fn=fn, entry='op')
    for bc, exp, nbc in [(5, -2, 3), (5, 1, 6), (3, 0, 3), (3, 0, 0), (1, 2, 3), (7, -7, 1), (4, 0, 4), (9, 3, 12), (3, 9, 12)]:
        for nneg in ((0, 1) if nbc else (0,)):
            for fn in ('<', '<=', '>', '>=', '==', '!='):
                add('cmp_int', bc=bc, exp=exp, nbc=nbc, nneg=nneg, fn=fn)
    # ints longer than the working precision (53 bits here): the comparison must use the exact int
    for bc, exp, nbc in [(3, 60, 62), (53, 1, 55), (10, 50, 60), (1, 53, 54), (53, 0, 54)]:
        for nneg in (0, 1):
            for fn in ('<', '<=', '>', '>=', '==', '!='):
                add('cmp_int', bc=bc, exp=exp, nbc=nbc, nneg=nneg, fn=fn)
    # mpf <op> Python float (dyadic float model through from_float)
    for bc, exp, nbc, fexp in [(5, -2, 4, -1), (5, 3, 4, 4), (3, 0, 3, 0), (7, -7, 1, -3), (9, -3, 12, -6), (60, -7, 53, 0), (4, 1000, 3, 1001), (6, -1074, 2, -1074)]:
        for nneg in (0, 1):
            for fn in ('<', '<=', '>', '>=', '==', '!='):
                add('cmp_int', bc=bc, exp=exp, nbc=nbc, nneg=nneg, fn=fn, fexp=fexp)
    kinds = ['zero', 'inf', 'ninf', 'nan', 'fin']
    for a in kinds:
        for b in kinds:
            if a == 'fin' and b == 'fin':
                continue
            for fn in ('mpf_lt', 'mpf_le', 'mpf_gt', 'mpf_ge', 'mpf_eq'):
                for fsign in ((0, 1) if 'fin' in (a, b) else (0,)):
                    add('cmp_special', a=a, b=b, fn=fn, fsign=fsign)
    # seeded random shapes (deterministic for a given VERIF_SEED)
    import random
    rng = random.Random(4000 + int(seed or 0))
    for _ in range(20 if not thorough else 80):
        add('cmp', sbc=rng.randint(1, 30), tbc=rng.randint(1, 30), off=rng.randint(-45, 45), fn=rng.choice(['mpf_cmp', 'mpf_lt', 'mpf_le', 'mpf_gt', 'mpf_ge', 'mpf_eq']))
        add('cmp_int', bc=rng.randint(1, 20), exp=rng.randint(-12, 50), nbc=rng.randint(1, 62), nneg=rng.randint(0, 1), fn=rng.choice(['<', '<=', '>', '>=', '==', '!=']))
        add('hash_mpf', bc=rng.randint(1, 64), exp=rng.randint(-70, 140))
        add('hash_mpc', rbc=rng.randint(1, 30), rexp=rng.randint(-10, 30), ibc=rng.randint(1, 30), iexp=rng.randint(-10, 30))
    # hashing
    hs = [(1, 0), (2, 0), (5, 0), (5, 3), (5, -3), (9, -1), (30, -10), (64, 70), (64, 0), (24, -30), (1, 61), (1, 60), (3, 59), (2, 60), (1, 62), (1, 122), (7, 130),
          (61, 0), (62, 0), (63, 0), (1, 63), (30, 33), (31, 31), (24, -61), (24, -62), (5, -60)]
    if thorough:
        hs += [(53, -52), (30, -100), (53, -130), (200, 0), (200, 77), (100, -61)]
    for bc, exp in hs:
        add('hash_mpf', bc=bc, exp=exp)
    add('hash_mpf', bc=9, exp=-4, entry='op')
    add('hash_mpf', bc=62, exp=0, entry='op')
    for rbc, rexp, ibc, iexp in [(3, 0, 0, 0), (1, 0, 0, 0), (3, 0, 2, 1), (1, 0, 1, 0), (0, 0, 3, 0), (5, -2, 5, -2), (30, 33, 20, 40), (62, 0, 3, 0), (9, 55, 9, -5), (3, 0, 30, 20)]:
        add('hash_mpc', rbc=rbc, rexp=rexp, ibc=ibc, iexp=iexp)
    # enough freedom for the combined hash to land exactly on the signed-wrap boundary 2**63 (and just beside it)
    for rbc, ibc in [(20, 44), (24, 45), (10, 43), (30, 44)]:
        add('hash_mpc', rbc=rbc, rexp=0, ibc=ibc, iexp=0)
    add('hash_mpc', rbc=20, rexp=0, ibc=44, iexp=0, entry='op')
    add('hash_mpc', rbc=3, rexp=0, ibc=2, iexp=1, entry='op')
    add('hash_mpc', rbc=3, rexp=1, ibc=0, iexp=0, entry='op')
    return obs
