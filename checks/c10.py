"""C10 -- rounded operations never return more bits than the working precision."""
from checks import c02 as _c02, c06 as _c06
from checks.c01 import derive

PROPERTY = 'C10'
LEVEL = 'other'
EXPLANATION = (
    "Bounded symbolic verification.  For every rounded entry point the engine reaches (libmpf kernels and their public routes: "
    "operators, fadd/fsub/fmul/fdiv/fneg with prec=/rounding=, mpf(x, prec=), +x/-x/abs, floor/ceil/nint/frac with and without "
    "keywords, %, and the wrapper layers _wrap_libmp_function / _wrap_specfun with the numeric kernel replaced by an arbitrary "
    "canonical mpf of up to wp bits) the solver decides that the returned mantissa has at most `prec` bits for ALL operand "
    "contents of the shape -- the shape grids deliberately contain operands whose mantissas are longer than the precision."
)
TRUSTED = _c02.TRUSTED
ASSUMPTIONS = _c02.ASSUMPTIONS
BUDGET = {'quick': dict(ob_deadline_s=100, total_s=300), 'thorough': dict(ob_deadline_s=600, total_s=1500)}
BOUNDS = {'quick': 'shape grids of C02/C06 restricted to rounded calls (prec > 0), asserting bc <= prec; wrapper obligations with kernel stubs'}


def obligations(tier, seed=0):
    obs = derive(_c02.obligations(tier, seed) + _c06.obligations(tier, seed), 'bits',
                 keep=lambda spec, p: p.get('prec', 0) > 0 and not spec.endswith(':special'))
    try:
        from checks import c10_extra
        obs = c10_extra.obligations(tier, seed) + obs
    except ImportError:
        pass
    return obs
