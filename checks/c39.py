"""C39 -- magnitude, nearest-integer and classification helpers are exact."""
from checks import c02 as _c02

PROPERTY = 'C39'
LEVEL = 'other'
FX = 'checks.fam_misc:'
EXPLANATION = (
    "Bounded symbolic verification of mp.mag (mpf, mpc and int arguments), mp.nint_distance, mp.isint/isnormal/isinf/isnan/"
    "isfinite/isnpint (mpf and mpc arguments, finite and special), mp.ldexp and mp.frexp, executed from /repo's source on real "
    "context objects with symbolic mantissas/signs/exponents.  mag: the returned integer m satisfies |x| <= 2^m and "
    "|x| > 2^(m-3) (at most 2 above optimal) -- for complex arguments on |z|^2 = re^2 + im^2 with precise bit-vector squares, at "
    "several working precisions (the bound must not depend on mp.prec).  nint_distance: n is a nearest integer (|x-n| <= 1/2) "
    "with the sign of x, and 2^(d-1) <= |x-n| < 2^d, -inf exactly for integers.  Classification: exact truth tables.  "
    "ldexp/frexp: exact scaling at a tiny working precision (no rounding may occur)."
)
TRUSTED = _c02.TRUSTED
ASSUMPTIONS = ["arguments are canonical mpf/mpc values; relative exponent of real and imaginary part concrete per obligation"]
BUDGET = {'quick': dict(ob_deadline_s=60, total_s=120), 'thorough': dict(ob_deadline_s=300, total_s=900)}
BOUNDS = {'quick': 'mantissas 1..20 bits, complex component offsets -8..8, nint_distance exponents -12..3'}


def obligations(tier, seed=0):
    obs = []

    def add(fam, **kw):
        obs.append((FX + fam, kw))
    for bc in (1, 2, 5, 20, 64):
        add('mag', kind='mpf', bc=bc)
        add('mag', kind='mpf', bc=bc, ctxprec=3)
    for bc in (1, 2, 5, 12):
        for neg in (0, 1):
            add('mag', kind='int', bc=bc, neg=neg)
    for pbc, qbc in [(5, 3), (3, 5), (1, 4), (6, 1), (4, 4), (56, 2), (60, 3), (2, 56), (30, 30)]:
        add('mag', kind='mpq', pbc=pbc, qbc=qbc)
    for rbc, ibc, off in [(3, 3, 0), (5, 2, 1), (2, 5, -1), (12, 1, -5), (1, 12, 5), (12, 1, -16), (1, 12, 16), (12, 3, -7), (4, 4, 3), (6, 6, -2), (1, 1, 0), (10, 10, 0)]:
        for cp in (53, 3, 10):
            add('mag', kind='mpc', rbc=rbc, ibc=ibc, off=off, ctxprec=cp)
    # one component dominates by `gap` bits and is long enough (>= 2*gap+2 bits) for |z| to cross the next power of two
    for gap in (2, 4, 5, 6, 8):
        big = 2 * gap + 4
        for cp in (1, 3, 7, 53):
            add('mag', kind='mpc', rbc=big, ibc=1, off=gap + 1 - big, ctxprec=cp)
            add('mag', kind='mpc', rbc=2, ibc=big, off=big + gap - 2 - 2 * (big + gap - 2) + (big - 2) - gap + 0 if False else -(gap + big - 2), ctxprec=cp)
    for bc, e in [(1, -1), (1, -3), (1, 0), (3, -1), (3, -2), (3, -3), (3, -4), (5, -2), (5, -5), (5, -6), (5, -7), (5, 3), (8, -1), (12, -4), (9, -12)]:
        add('nint_distance', bc=bc, exp=e)
    # exact rationals (mpq) and Python ints
    for pbc, qbc in [(5, 3), (3, 5), (7, 6), (1, 4), (6, 1), (4, 4)]:
        add('nint_distance_q', pbc=pbc, qbc=qbc)
    kinds = ['pos', 'neg', 'zero', 'inf', 'ninf', 'nan']
    from checks.fam_misc import CLASS_FUNCS
    for fn in CLASS_FUNCS:
        for a in kinds:
            for exp in ((0, 2, -2) if a in ('pos', 'neg') else (0,)):
                add('classify', fn=fn, kind='mpf', a=a, exp=exp)
        for a in kinds:
            for b in kinds:
                add('classify', fn=fn, kind='mpc', a=a, b=b, exp=1, iexp=-1)
    for bc in (1, 5, 30, 80):
        add('ldexp_frexp', bc=bc, fn='ldexp')
        add('ldexp_frexp', bc=bc, fn='frexp')
    if tier == 'thorough':
        for bc in (3, 7, 53, 113, 300):
            add('mag', kind='mpf', bc=bc)
            add('mag', kind='mpf', bc=bc, ctxprec=7)
            add('ldexp_frexp', bc=bc, fn='ldexp')
            add('ldexp_frexp', bc=bc, fn='frexp')
        for bc in (3, 24, 53, 64, 100):
            for neg in (0, 1):
                add('mag', kind='int', bc=bc, neg=neg)
        for rbc, ibc, off in [(8, 8, 0), (8, 8, 1), (8, 8, -1), (16, 3, -6), (3, 16, 6), (20, 20, 0), (24, 2, -30), (2, 24, 30), (7, 9, 2)]:
            for cp in (53, 5, 24):
                add('mag', kind='mpc', rbc=rbc, ibc=ibc, off=off, ctxprec=cp)
        for bc in (2, 4, 6, 7, 9, 10, 16, 24):
            for e in (-1, -2, -bc, -bc - 1, -bc + 1, 0, 2, -bc - 3):
                add('nint_distance', bc=bc, exp=e)
    return obs
