"""C11: the working precision is restored at every exit (normal or exceptional) of a public entry point.

Abstract symbolic execution: the entry point's real source is interpreted with every argument an Unknown;
the only symbolic integers are the context's precision state (_prec, _dps, _prec_rounding[0]) with an
arbitrary entry value.  Callees that write the precision state (found by an AST scan of /repo) are inlined;
every other callee is a stub that returns an Unknown or raises (a fresh Boolean per call site: this is the
'any internal computation / callback may fail' quantifier) and is assumed precision-preserving (inductive
hypothesis: each such callee is itself an obligation when public).
"""
import ast
import doctest
import inspect
import sys
import types

import z3

from pysym import values as V
from pysym import srcmap
from pysym.values import G, SInt, SBool, Unknown, bvv, zt, zb, Unsupported, mk_int, bounds
from pysym.engine import NORMAL, RAISE, is_mp_function, _writes_precision
from vlib.ob import Ob
from checks.fam_arith import finish

W = 64
PMAX = 1 << 20
B = bvv

_PD = _DP = None


def ufs():
    return z3.Function('prec_to_dps', z3.BitVecSort(W), z3.BitVecSort(W)), z3.Function('dps_to_prec', z3.BitVecSort(W), z3.BitVecSort(W))


def make_models(PD, DP):
    from mpmath.libmp import libmpf

    def m_pd(eng, st, args, kw, fr):
        n = args[0]
        if isinstance(n, Unknown):
            return [(st, NORMAL, Unknown('dps'))]
        if isinstance(n, SInt):
            t = PD(n.t)
            G.SIDE.append(z3.And(t >= B(1), t <= B(PMAX)))
            return [(st, NORMAL, SInt(t, 1, PMAX))]
        return [(st, NORMAL, libmpf.prec_to_dps(n))]

    def m_dp(eng, st, args, kw, fr):
        n = args[0]
        if isinstance(n, Unknown):
            return [(st, NORMAL, Unknown('prec'))]
        if isinstance(n, SInt):
            t = DP(n.t)
            G.SIDE.append(z3.And(t >= B(1), t <= B(4 * PMAX)))
            G.SIDE.append(PD(t) == z3.If(n.t < B(1), B(1), n.t))       # lemma prec_to_dps(dps_to_prec(d)) == max(1,d) (checked by lemma_roundtrip)
            return [(st, NORMAL, SInt(t, 1, 4 * PMAX))]
        return [(st, NORMAL, libmpf.dps_to_prec(n))]
    return {libmpf.prec_to_dps: m_pd, libmpf.dps_to_prec: m_dp}


_touch_cache = {}


def touches(fn):
    """does the function's own source (incl. nested defs) write the precision state?"""
    code = getattr(fn, '__code__', None)
    if code is None:
        return False
    if code in _touch_cache:
        return _touch_cache[code]
    try:
        node, info = srcmap.lookup(fn)
        r = _writes_precision(node)
    except Exception:
        r = False
    _touch_cache[code] = r
    return r


INLINE_DEPTH1 = [False]
ALWAYS_INLINE = ('PrecisionManager', 'workprec', 'workdps', 'extraprec', 'extradps', '_set_prec', '_set_dps', 'f_wrapped', '<lambda>')


def inline_policy(fn, depth):
    qn = getattr(fn, '__qualname__', '')
    if depth <= 0:
        return True
    if depth == 1 and INLINE_DEPTH1[0]:
        return True
    if any(k in qn for k in ALWAYS_INLINE):
        return depth < 12
    if depth > 8:
        return False
    return touches(fn)


_keep_cache = {}


def keep_separate(v):
    """values that must not be joined into Unknown: objects/functions whose code writes the precision state"""
    if isinstance(v, (int, float, str, tuple, list, dict, type(None), SInt, SBool, Unknown)):
        return False
    if isinstance(v, (types.FunctionType, types.MethodType)):
        f = getattr(v, '__func__', v)
        return is_mp_function(f) and touches(f)
    t = type(v)
    if t in _keep_cache:
        return _keep_cache[t]
    r = False
    if (getattr(t, '__module__', '') or '').startswith('mpmath'):
        for k in t.__mro__:
            if not (getattr(k, '__module__', '') or '').startswith('mpmath'):
                continue
            for nm, m in k.__dict__.items():
                if isinstance(m, types.FunctionType) and touches(m) and nm not in ('_set_prec', '_set_dps', 'default'):
                    r = True
    # the context objects themselves carry hundreds of methods; they are singletons and never differ between branches
    _keep_cache[t] = r
    return r


# functions whose bodies are far too large for the abstract scan (hundreds of precision writes): modelled as havoc stubs
HAVOC = ('mpmath.functions.rszeta:zeta_half', 'mpmath.functions.rszeta:zeta_offline', 'mpmath.functions.rszeta:z_half',
         'mpmath.functions.rszeta:z_offline', 'mpmath.functions.rszeta:Rzeta_set', 'mpmath.functions.rszeta:Rzeta_simul')


def get_ctx(kind):
    import mpmath
    return {'mp': mpmath.mp, 'iv': mpmath.iv, 'fp': mpmath.fp}[kind]


def entry_callable(ctx, name):
    obj = ctx
    for part in name.split('.'):
        obj = getattr(obj, part)
    return obj


def restore(p):
    kind, name = p['ctx'], p['name']
    ctx = get_ctx(kind)
    PD, DP = ufs()
    ob = Ob(W, abstract=True, models=make_models(PD, DP), max_unroll=2, timeout_s=p.get('_t', 30))
    ob.eng.inline_policy = inline_policy
    ob.eng.max_depth = 40
    G.stats['_keep_separate'] = keep_separate
    P0 = ob.int('P0', 1, PMAX)
    D0 = ob.int('D0', 1, PMAX)
    ob.assume.append(PD(P0.t) == D0.t)          # state invariant established by both setters (lemma_setters)
    heap = {}
    if kind in ('mp', 'fp'):
        # fp has no precision state of its own (its setters are no-ops); what an fp entry point may disturb is the global mp
        # context it delegates to (ctx._mp), so for fp the watched slots are mp's
        sc = get_ctx('mp')
        heap[(id(sc), '_prec')] = (sc, P0)
        heap[(id(sc), '_dps')] = (sc, D0)
        heap[(id(sc._prec_rounding), ('item', 0))] = (sc._prec_rounding, P0)
        slots = [((id(sc), '_prec'), P0, '_prec'), ((id(sc), '_dps'), D0, '_dps'), ((id(sc._prec_rounding), ('item', 0)), P0, '_prec_rounding[0]')]
    else:
        heap[(id(ctx._prec), ('item', 0))] = (ctx._prec, P0)
        heap[(id(ctx), '_dps')] = (ctx, D0)
        slots = [((id(ctx._prec), ('item', 0)), P0, '_prec[0]'), ((id(ctx), '_dps'), D0, '_dps')]
    # helpers that are too large to inline within the deadline are modelled as HAVOC stubs: they may leave the precision slots
    # at arbitrary values and may raise (a sound over-approximation of any body); their callers must restore around them
    def m_havoc(eng, st, args, kw, fr):
        outs = []
        for raises in (False, True):
            s2 = st.fork(z3.BoolVal(True))
            for key, want, label in slots:
                obj = s2.heap[key][0] if key in s2.heap else None
                if obj is None:
                    continue
                n0 = len(ob.assume)
                nv = ob.int('havoc_%s_%d' % (label.strip('_[]0'), len(ob.vars)), 1, PMAX)
                G.SIDE.extend(ob.assume[n0:])
                eng.heap_set(s2, obj, key[1], nv)
            b = V.fresh_bool('havoc_raises')
            s2.pc = s2.pc + [b.t if raises else z3.Not(b.t)]
            outs.append((s2, RAISE if raises else NORMAL, Unknown('exc' if raises else 'call')))
        return outs
    for hn in p.get('havoc', HAVOC if kind != 'fp' else ()):       # fp: the helpers' own `ctx.prec = ...` are no-ops, only ctx._mp matters
        import importlib
        try:
            hm, hq = hn.split(':')
            hobj = getattr(importlib.import_module(hm), hq)
        except Exception:
            continue
        if p.get('writer', '').split(':')[-1] != hq and name != hq:
            ob.eng.models[hobj] = m_havoc
    if p.get('writer'):
        # a precision-writing helper that is not a public entry point (module-level function or private method taking the
        # context as its first parameter): entered directly, so that the induction 'every function that writes the precision
        # restores it; every other function preserves it if its callees do' has no gap
        import importlib
        modname, qn = p['writer'].split(':')
        obj = importlib.import_module(modname)
        for part in qn.split('.'):
            obj = getattr(obj, part)
        fn = types.MethodType(obj, ctx)
    else:
        fn = entry_callable(ctx, name)
    mode = p.get('mode', 'call')
    # the generic wrapper f_wrapped (and the two harness drivers) are shells: their direct callee is the real entry point
    INLINE_DEPTH1[0] = getattr(getattr(fn, '__func__', fn), '__name__', '') == 'f_wrapped' or mode != 'call'
    if mode == 'call':
        outs = ob.run(fn, [Unknown('star')], {'__unknown_kwargs__': Unknown('kw')}, heap=heap)
    elif mode == 'with':
        # context manager: with ctx.<name>(Unknown): <Unknown body that may raise>
        import checks.fam_prec as me
        outs = ob.run(me._with_body, [fn, Unknown('arg'), Unknown('body')], {}, heap=heap)
    elif mode == 'decorated':
        import checks.fam_prec as me
        outs = ob.run(me._decorated, [fn, Unknown('arg'), Unknown('f')], {}, heap=heap)
    elif mode == 'reentrant':
        import checks.fam_prec as me
        outs = ob.run(me._reentrant, [fn, Unknown('arg'), Unknown('body')], {}, heap=heap)
    else:
        raise Unsupported(mode)
    exits = dict(normal=0, raising=0)
    last_state = [None]

    def slot_goals(st):
        goals = []
        for key, want, label in slots:
            h = st.heap.get(key)
            cur = h[1] if h is not None else None
            if cur is None:
                goals.append(False)
            elif isinstance(cur, Unknown):
                goals.append(False)
            elif isinstance(cur, (SInt, int)):
                goals.append(zt(cur) == zt(want))
            else:
                goals.append(False)
        last_state[0] = st
        return [z3.And([g if not isinstance(g, bool) else z3.BoolVal(g) for g in goals])]

    def good(val, st):
        exits['normal'] += 1
        return slot_goals(st)

    def good_raise(exc, st):
        exits['raising'] += 1
        return slot_goals(st)
    res = ob.prove(outs, good, good_raise)
    # second phase: a returned callable (e.g. the interpolant of odefun) is itself a public callable; the user may have changed
    # the precision before calling it, so it is entered from a fresh arbitrary precision state
    from pysym.engine import Closure, BoundClosure, State
    phase2 = 0
    if res['status'] == 'proved':
        for st, kind, val in outs:
            if kind != NORMAL or not isinstance(val, (Closure, BoundClosure)):
                continue
            phase2 += 1
            P1 = ob.int('P1_%d' % phase2, 1, PMAX)
            D1 = ob.int('D1_%d' % phase2, 1, PMAX)
            st2 = State(st.pc + [PD(P1.t) == D1.t, z3.And(P1.t >= B(1), P1.t <= B(PMAX), D1.t >= B(1), D1.t <= B(PMAX))], {}, dict(st.heap), st.hver)
            new_slots = []
            for key, want, label in slots:
                obj = st2.heap[key][0]
                nv = D1 if label == '_dps' else P1
                st2.heap[key] = (obj, nv)
                new_slots.append((key, nv, label))
            outs2 = ob.eng.call(st2, val, [Unknown('star')], {'__unknown_kwargs__': Unknown('kw')})
            saved = slots[:]
            slots[:] = new_slots
            r2 = ob.prove(outs2, good, good_raise)
            slots[:] = saved
            if r2['status'] != 'proved':
                res = r2
                res['detail'] = 'returned callable, entered at a new precision: ' + (res.get('detail') or '')
                res['phase'] = 2
                break
    res = finish(ob, res)
    res['stats']['extra']['returned_callables_checked'] = phase2
    res['stats']['extra'].update(exits_normal=exits['normal'], exits_raising=exits['raising'], stubbed=len(ob.eng.stubbed), lenient=len(ob.eng.lenient))
    res['touch'] = bool(_touched_any(ob.eng))
    if res['status'] == 'proved' and not res['touch']:
        res['detail'] = 'trivial: no precision write reached (callees assumed precision-preserving)'
    if ob.eng.lenient:
        res.setdefault('notes', ob.eng.lenient[:5])
    return res


def _touched_any(eng):
    return G.stats.get('heap_writes', 0)


def _with_body(mgr_factory, arg, body):
    with mgr_factory(arg):
        body()


def _decorated(mgr_factory, arg, f):
    g = mgr_factory(arg)(f)
    return g()


def _reentrant(mgr_factory, arg, body):
    # one manager object used re-entrantly: as a decorator whose function enters the same manager again
    m = mgr_factory(arg)

    def inner():
        with m:
            body()
        return body()
    g = m(inner)
    return g()


_reentrant._pysym_interpret = True


# the driver functions above are interpreted by the engine like mpmath code
_with_body._pysym_interpret = True
_decorated._pysym_interpret = True


# ------------------------------------------------------------------------------ dynamic replay
def _doc_examples(fn, name):
    doc = getattr(fn, '__doc__', None) or ''
    try:
        exs = doctest.DocTestParser().get_examples(doc)
    except Exception:
        exs = []
    return exs


class FaultInjected(ArithmeticError):
    pass


def _exec_with_fault(code, glob, k):
    """run code; the k-th call of a function defined in mpmath raises FaultInjected (k=0: no fault). Returns number of calls seen."""
    count = [0]

    def tracer(frame, event, arg):
        if event == 'call' and 'mpmath' in frame.f_code.co_filename and '/tests/' not in frame.f_code.co_filename:
            count[0] += 1
            if count[0] == k:
                raise FaultInjected('injected fault at call %d (%s)' % (k, frame.f_code.co_name))
        return None
    if k:
        sys.settrace(tracer)
    try:
        exec(code, glob)
    finally:
        sys.settrace(None)
    return count[0]


def writers():
    """(module, qualname, mentions _mp) of every function in the loaded mpmath modules whose own source writes the precision
    state, takes the context as first parameter `ctx`, and is not itself a public entry point of mp"""
    import mpmath
    pub = set()
    for cn in ('mp', 'iv', 'fp'):
        c = getattr(mpmath, cn)
        for n in dir(c):
            if n.startswith('_'):
                continue
            try:
                v = getattr(c, n)
            except Exception:
                continue
            f = getattr(v, '__func__', v)
            if isinstance(f, types.FunctionType):
                pub.add(f.__code__)
                for cell in (f.__closure__ or ()):
                    w = getattr(cell, 'cell_contents', None)
                    if isinstance(w, types.FunctionType):
                        pub.add(w.__code__)
    skip = {'__init__', 'default', 'clone', '_set_prec', '_set_dps', '__call__', '__enter__', '__exit__'}
    out, seen = [], set()
    for mn, mod in sorted(sys.modules.items()):
        if not mn.startswith('mpmath') or mod is None or '.tests' in mn:
            continue
        for name, obj in list(vars(mod).items()):
            cands = []
            if isinstance(obj, types.FunctionType):
                cands.append((name, obj))
            elif isinstance(obj, type) and (obj.__module__ or '').startswith('mpmath'):
                for k, v in vars(obj).items():
                    if isinstance(v, types.FunctionType):
                        cands.append((obj.__name__ + '.' + k, v))
            for qn, f in cands:
                if f.__code__ in seen or f.__module__ != mn or f.__code__ in pub or qn.split('.')[-1] in skip:
                    continue
                seen.add(f.__code__)
                if not touches(f):
                    continue
                argnames = f.__code__.co_varnames[:f.__code__.co_argcount]
                if not argnames or argnames[0] != 'ctx':
                    continue
                try:
                    src = inspect.getsource(f)
                except Exception:
                    src = ''
                out.append((mn, qn, '_mp' in src))
    return out


def restore_concrete(p, m):
    """dynamic confirmation: run the entry point's own docstring examples from entry precisions that are not the image of a
    dps, without and with a fault injected at the k-th internal call, and check the precision state afterwards.
    None -> could not reproduce (UNCONFIRMED)."""
    import time
    import mpmath
    from mpmath.libmp import prec_to_dps
    kind, name = p['ctx'], p['name']
    ctx = get_ctx(kind)
    fn = entry_callable(ctx, name)
    # fp has no precision of its own: what is watched (and set before the call) is the global mp context's precision
    sctx = get_ctx('mp') if kind == 'fp' else ctx
    short = name.split('.')[-1]
    precs = []
    if m and 'P0' in m and 1 <= m['P0'] <= 2000:
        precs.append(m['P0'])
    precs += [101, 40, 167, 6]          # 6: entry precisions below the bit size of ordinary arguments (e.g. mag(100) = 7)
    mode = p.get('mode', 'call')
    t_end = time.time() + p.get('replay_budget_s', 25)
    tried = 0

    def check(P, what):
        got = (sctx.prec, sctx.dps)
        want = (P, prec_to_dps(P))
        if got != want:
            sctx.prec = 53
            return False, 'entered %s with (prec, dps) = %r, left with %r after: %s' % (name, want, got, what)
        return None
    if mode in ('with', 'decorated', 'reentrant'):
        for P in precs:
            for fault in (False, True):
                sctx.prec = P
                try:
                    if mode == 'reentrant':
                        m_ = fn(7)

                        def inner_():
                            with m_:
                                if fault:
                                    raise ZeroDivisionError
                            return ctx.mpf(1)
                        m_(inner_)()
                    elif mode == 'with':
                        with fn(77):
                            if fault:
                                raise ZeroDivisionError
                    else:
                        def cb():
                            if fault:
                                raise ZeroDivisionError
                            return ctx.mpf(1)
                        fn(77)(cb)()
                except ZeroDivisionError:
                    pass
                tried += 1
                r = check(P, '%s(77) as %s%s' % (name, mode, ' with a raising body' if fault else ''))
                if r:
                    return r
        sctx.prec = 53
        return None, 'UNCONFIRMED abstract alarm for %s: %d dynamic probes restored the precision' % (name, tried)
    glob = {}
    exec('from mpmath import *', glob)
    glob[short] = fn
    examples = _doc_examples(fn, short)
    if not any((short + '(') in ex.source for ex in examples):
        examples = [doctest.Example('%s(%s)\n' % (short, a), '') for a in ('1', '2.5', '0.5, 2', '3, 0.25', 'lambda x: x, 1', 'lambda x: x, [0, 1]')]
    derived = set()
    for ex in examples:
        src = ex.source.strip()
        is_call = ((short + '(') in src or any((d + '(') in src for d in derived)) and 'prec' not in src.replace(short, '') and 'dps' not in src.replace(short, '')
        try:
            tr = ast.parse(src)
            for n in tr.body:
                if isinstance(n, ast.Assign) and any(isinstance(c, ast.Call) and getattr(c.func, 'id', getattr(c.func, 'attr', None)) == short for c in ast.walk(n.value)):
                    for t in n.targets:
                        for x in ast.walk(t):
                            if isinstance(x, ast.Name):
                                derived.add(x.id)
        except SyntaxError:
            pass
        try:
            code = compile(src, '<doc example>', 'exec')
        except SyntaxError:
            continue
        if is_call and time.time() < t_end:
            saved = sctx.prec
            for P in precs:
                if time.time() > t_end:
                    break
                # (a) plain run
                sctx.prec = P
                ncalls = 0
                try:
                    ncalls = _exec_with_fault(code, dict(glob), -1)
                except BaseException:
                    pass
                tried += 1
                r = check(P, src)
                if r:
                    return r
                # (b) user callbacks raise
                if 'lambda' in src:
                    sctx.prec = P
                    try:
                        exec(compile(_poison_lambdas(src), '<doc example>', 'exec'), dict(glob))
                    except BaseException:
                        pass
                    tried += 1
                    r = check(P, src + '   [callbacks made to raise ZeroDivisionError]')
                    if r:
                        return r
                # (c) fault at the k-th internal call
                ks = sorted(set([1, 2, 3, 5, 8, 13, 21, 34, 55, 89, 144, 233, 377, 610, 987] + [max(1, ncalls * i // 7) for i in range(1, 7)]))
                for k in ks:
                    if k > max(ncalls, 1) or time.time() > t_end:
                        break
                    sctx.prec = P
                    try:
                        _exec_with_fault(code, dict(glob), k)
                    except BaseException:
                        pass
                    tried += 1
                    r = check(P, src + '   [fault injected at internal call #%d]' % k)
                    if r:
                        return r
            sctx.prec = saved
        try:
            exec(code, glob)
        except BaseException:
            pass
    sctx.prec = 53
    return None, 'UNCONFIRMED abstract alarm for %s: %d dynamic probes (docstring examples at non-dps-image precisions, plain / failing callbacks / injected internal faults) all restored the precision' % (name, tried)


def _poison_lambdas(src):
    """rewrite every lambda in a statement so that calling it raises ZeroDivisionError"""
    tree = ast.parse(src)

    class T(ast.NodeTransformer):
        def visit_Lambda(self, node):
            node.body = ast.BinOp(left=ast.Constant(1), op=ast.Div(), right=ast.Constant(0))
            return node
    tree = ast.fix_missing_locations(T().visit(tree))
    return ast.unparse(tree)


# ------------------------------------------------------------------------------ the setters and the round-trip lemma
def _conv_constants():
    """the float literals of prec_to_dps / dps_to_prec, read from /repo's source after matching the expected expression shape
    (max(1, int(round(int(n)/C)-1)) and max(1, int(round((int(n)+1)*C)))); None when the shape differs"""
    from mpmath.libmp import libmpf
    out = []
    for fn, shape in ((libmpf.prec_to_dps, 'max(1, int(round(int(n) / C) - 1))'), (libmpf.dps_to_prec, 'max(1, int(round((int(n) + 1) * C)))')):
        node, info = srcmap.lookup(fn)
        ret = [s for s in node.body if isinstance(s, ast.Return)]
        if len(ret) != 1 or len([s for s in node.body if not (isinstance(s, ast.Expr) and isinstance(s.value, ast.Constant))]) != 1:
            return None
        consts = [c.value for c in ast.walk(ret[0].value) if isinstance(c, ast.Constant) and isinstance(c.value, float)]
        if len(consts) != 1:
            return None
        templ = ast.dump(ast.parse(shape.replace('C', repr(consts[0])), mode='eval').body)
        if ast.dump(ret[0].value) != templ:
            return None
        out.append(consts[0])
    return out


def lemma_roundtrip(p):
    """prec_to_dps(dps_to_prec(d)) == d for 1 <= d <= 2^20: the fact the C11 abstraction uses for its uninterpreted
    conversion functions.  Decided by z3 (QF_LIRA) over the standard model of IEEE double arithmetic -- fl(a op b) lies within
    relative 2^-53 of the exact result, int -> float exact below 2^53, round() returns an integer within 1/2 -- with the
    constants read from /repo's source.  A failure of this lemma is not a violation of the property: it only means the
    abstraction may not be used, so the outcome is 'inconclusive'."""
    from fractions import Fraction
    cs = _conv_constants()
    res = dict(status='inconclusive', detail='', stats=dict(queries=0, solver_s=0.0, forks=0, merges=0, calls=0, funcs={}, cov={}, extra={}))
    for fn in ('prec_to_dps', 'dps_to_prec'):
        from mpmath.libmp import libmpf
        node, info = srcmap.lookup(getattr(libmpf, fn))
        res['stats']['funcs'][info['name']] = info
    if cs is None:
        res['detail'] = 'Unsupported: conversion functions do not have the expected expression shape'
        return res
    c1, c2 = Fraction(cs[0]), Fraction(cs[1])
    import time
    D = 1 << 20
    d, pp, q = z3.Ints('d p q')
    x1, x2 = z3.Reals('x1 x2')
    R = lambda f: z3.RealVal(str(f))
    delta = Fraction(1, 1 << 29)           # >= 2^-53 * (2^20+1) * 4 : absolute rounding error of either float operation here
    s = z3.Solver()
    s.set('timeout', 60000)
    s.add(d >= 1, d <= D)
    # p = dps_to_prec(d) = max(1, round(fl((d+1)*c2)))
    s.add(x1 >= (z3.ToReal(d) + 1) * R(c2) - R(delta), x1 <= (z3.ToReal(d) + 1) * R(c2) + R(delta))
    pr = z3.Int('pr')
    s.add(z3.ToReal(pr) - x1 <= R(Fraction(1, 2)), x1 - z3.ToReal(pr) <= R(Fraction(1, 2)))
    s.add(pp == z3.If(pr < 1, 1, pr))
    # q = prec_to_dps(p) = max(1, round(fl(p / c1)) - 1)
    s.add(x2 >= z3.ToReal(pp) * R(1 / c1) - R(delta), x2 <= z3.ToReal(pp) * R(1 / c1) + R(delta))
    qr = z3.Int('qr')
    s.add(z3.ToReal(qr) - x2 <= R(Fraction(1, 2)), x2 - z3.ToReal(qr) <= R(Fraction(1, 2)))
    s.add(q == z3.If(qr - 1 < 1, 1, qr - 1))
    s.push()
    s.add(q != d)
    t0 = time.time()
    r = s.check()
    res['stats']['queries'] += 1
    s.pop()
    # reachability witness: the constraints themselves are satisfiable
    r2 = s.check()
    res['stats']['queries'] += 1
    res['stats']['solver_s'] = round(time.time() - t0, 3)
    if str(r) == 'unsat' and str(r2) == 'sat':
        res['status'] = 'proved'
        m = s.model()
        res['witness'] = {'d': m[d].as_long(), 'p': m[pp].as_long()}
    else:
        res['detail'] = 'round-trip lemma not established over the relaxed float model (%s / %s): the C11 abstraction of the conversion functions is not justified on this tree' % (r, r2)
    return res


def lemma_roundtrip_concrete(p, m):
    return None, 'UNCONFIRMED (lemma obligations never report violations)'


def setters(p):
    """ctx.prec = n / ctx.dps = n for a symbolic n >= 1 (mp and iv): afterwards prec == n, dps == prec_to_dps(n)
    (resp. dps == n, prec == dps_to_prec(n)) and every copy of the precision the context keeps (mp: _prec and
    _prec_rounding[0], which the number types' operators read through _ctxdata; iv: _prec[0]) agrees; the rounding mode is
    untouched.  The conversion functions are uninterpreted (they *are* the documented formulas)."""
    kind, which = p['ctx'], p['which']
    ctx = get_ctx(kind)
    PD, DP = ufs()
    ob = Ob(W, models=make_models(PD, DP), timeout_s=p.get('_t', 30))
    n = ob.int('n', 1, PMAX)
    P0 = ob.int('P0', 1, PMAX)
    D0 = ob.int('D0', 1, PMAX)
    heap = {}
    if kind == 'mp':
        heap[(id(ctx), '_prec')] = (ctx, P0)
        heap[(id(ctx), '_dps')] = (ctx, D0)
        heap[(id(ctx._prec_rounding), ('item', 0))] = (ctx._prec_rounding, P0)
    else:
        heap[(id(ctx._prec), ('item', 0))] = (ctx._prec, P0)
        heap[(id(ctx), '_dps')] = (ctx, D0)
    prop = type(ctx).__dict__.get(which) or [k.__dict__[which] for k in type(ctx).__mro__ if which in k.__dict__][0]
    outs = ob.run(prop.fset, [ctx, n], {}, heap=heap)
    want_prec = n.t if which == 'prec' else DP(n.t)
    want_dps = PD(n.t) if which == 'prec' else n.t

    def good(val, st):
        def rd(obj, key):
            h = st.heap.get((id(obj), key))
            return None if h is None else h[1]
        vals = []
        if kind == 'mp':
            vals = [(rd(ctx, '_prec'), want_prec), (rd(ctx._prec_rounding, ('item', 0)), want_prec), (rd(ctx, '_dps'), want_dps)]
            if (id(ctx._prec_rounding), ('item', 1)) in st.heap or ctx.mpf._ctxdata[2] is not ctx._prec_rounding or ctx.mpc._ctxdata[2] is not ctx._prec_rounding:
                return False
        else:
            vals = [(rd(ctx._prec, ('item', 0)), want_prec), (rd(ctx, '_dps'), want_dps)]
            if ctx.mpf._ctxdata[2] is not ctx._prec:
                return False
        gs = []
        for cur, want in vals:
            if not isinstance(cur, (SInt, int)):
                return False
            gs.append(zt(cur) == want)
        # the getters return the slots
        return [z3.And(gs)]
    res = ob.prove(outs, good)
    return finish(ob, res)


def setters_concrete(p, m):
    """replay from the model's entry precision; because the conversion functions are uninterpreted in the query, the model's
    dps need not be the real prec_to_dps(P0): the pattern 'new value equals the current one' is therefore replayed as such
    (n = the real current value), and entry precisions that are not the image of a dps are tried as well"""
    from mpmath.libmp import prec_to_dps, dps_to_prec
    ctx = get_ctx(p['ctx'])
    which = p['which']
    old = ctx.prec
    entries = [q for q in (m.get('P0'), 54, 101, 53) if q and 1 <= q <= 100000]
    try:
        for P0 in entries:
            ctx.prec = P0
            cur = ctx.dps if which == 'dps' else ctx.prec
            ns = [m.get('n', 1), cur, cur + 1]
            for n in ns:
                if not (1 <= n <= 100000):
                    continue
                ctx.prec = P0
                setattr(ctx, which, n)
                want = (n, prec_to_dps(n)) if which == 'prec' else (dps_to_prec(n), n)
                opprec = ctx.mpf._ctxdata[2][0]
                got = (ctx.prec, ctx.dps)
                if not (got == want and opprec == want[0]):
                    return False, 'entry precision %d: %s.%s = %d gives (prec, dps) = %r, precision used by operators %r; documented: %r' % (
                        P0, p['ctx'], which, n, got, opprec, want)
        return True, ''
    finally:
        ctx.prec = old
