"""C38: contexts are isolated from each other (precision / settings slots), and a clone starts at the same precision.

The real setters, precision managers and MPContext.clone are executed symbolically (new precision / entry precision
symbolic); the *other* context's observable state is read through the same post-state heap.  If two contexts shared any
of the objects that carry the precision (the _prec_rounding list that the number types' operators read through _ctxdata,
iv's _prec list, a shared mpf class, a class-level slot), the write through one context shows up in the read through the
other as a term depending on the symbolic value, and the solver returns the value that exposes it.
"""
import z3

from pysym import values as V
from pysym.values import G, SInt, SBool, Unknown, bvv, zt, zb, Unsupported
from pysym.engine import NORMAL, RAISE
from vlib.ob import Ob
from checks.fam_arith import finish
from checks.fam_prec import ufs, make_models, W, PMAX

B = bvv


def contexts():
    """fresh context objects for one obligation (built natively by the real constructors of the current tree)"""
    import mpmath
    mp = mpmath.mp
    c1 = mp.clone()
    c2 = c1.clone()
    return {'mp': mp, 'clone': c1, 'clone2': c2, 'iv': mpmath.iv, 'fp': mpmath.fp}


def _observe(ctx):
    """what a user of `ctx` can see of its configuration: precision, dps, the precision its number types' operators use,
    rounding mode, and the display/behaviour settings"""
    data = ctx.mpf._ctxdata[2] if hasattr(ctx.mpf, '_ctxdata') else None
    opprec = data[0] if data is not None else 0
    oprnd = data[1] if data is not None and len(data) > 1 else 0
    trap = ctx.trap_complex if hasattr(ctx, 'trap_complex') else 0
    return (ctx.prec, ctx.dps, opprec, oprnd, ctx.pretty, trap)


_observe._pysym_interpret = True


def _drive_set(a, b, which, n):
    before = _observe(b)
    if which == 'prec':
        a.prec = n
    elif which == 'dps':
        a.dps = n
    elif which == 'pretty':
        a.pretty = n
    elif which == 'trap_complex':
        a.trap_complex = n
    after = _observe(b)
    return before, after, after


_drive_set._pysym_interpret = True


def _drive_mgr(a, b, which, n):
    before = _observe(b)
    with getattr(a, which)(n):
        mid = _observe(b)
    after = _observe(b)
    return before, mid, after


_drive_mgr._pysym_interpret = True


def _same(x, y):
    """z3 Bool: two observed tuples are equal"""
    if len(x) != len(y):
        return z3.BoolVal(False)
    gs = []
    for u, v in zip(x, y):
        if isinstance(u, (SInt, SBool)) or isinstance(v, (SInt, SBool)):
            if isinstance(u, (bool, SBool)) and isinstance(v, (bool, SBool)):
                gs.append(zb(u) == zb(v))
            elif isinstance(u, (int, SInt)) and isinstance(v, (int, SInt)) and not isinstance(u, bool) and not isinstance(v, bool):
                gs.append(zt(u) == zt(v))
            else:
                gs.append(z3.BoolVal(False))
        else:
            gs.append(z3.BoolVal(u == v and type(u) is type(v)))
    return z3.And(gs) if gs else z3.BoolVal(True)


def isolation(p):
    """changing a setting of context `a` (prec, dps, pretty, trap_complex; or running a body under one of a's precision
    managers) with a symbolic new value leaves everything observable of context `b` unchanged (before == during == after)"""
    a_name, b_name, which = p['a'], p['b'], p['which']
    cs = contexts()
    a, b = cs[a_name], cs[b_name]
    PD, DP = ufs()
    ob = Ob(W, models=make_models(PD, DP), timeout_s=p.get('_t', 30))
    if which in ('pretty', 'trap_complex'):
        n = ob.bool('n')
    else:
        n = ob.int('n', 1, PMAX)
    import checks.fam_ctx as me
    if which in ('workprec', 'workdps', 'extraprec', 'extradps'):
        if not hasattr(a, which):
            raise Unsupported('%s has no %s' % (a_name, which))
        outs = ob.run(me._drive_mgr, [a, b, which, n])
    else:
        if which == 'trap_complex' and not hasattr(a, 'trap_complex'):
            raise Unsupported('%s has no trap_complex' % a_name)
        outs = ob.run(me._drive_set, [a, b, which, n])

    def good(val, st):
        before, mid, after = val
        return [z3.And(_same(before, mid), _same(before, after))]
    return finish(ob, ob.prove(outs, good))


def isolation_concrete(p, m):
    cs = contexts()
    a, b = cs[p['a']], cs[p['b']]
    which = p['which']
    n = m.get('n', 1)
    if which in ('pretty', 'trap_complex'):
        n = bool(n)

    def obs(ctx):
        data = getattr(ctx.mpf, '_ctxdata', None)
        data = data[2] if data is not None else None
        return (ctx.prec, ctx.dps, data[0] if data is not None else 0, data[1] if data is not None and len(data) > 1 else 0,
                ctx.pretty, getattr(ctx, 'trap_complex', 0))
    saved = {k: (c.prec, c.pretty, getattr(c, 'trap_complex', None)) for k, c in cs.items()}
    try:
        before = obs(b)
        if which in ('workprec', 'workdps', 'extraprec', 'extradps'):
            with getattr(a, which)(n):
                mid = obs(b)
        else:
            setattr(a, which, n)
            mid = obs(b)
        after = obs(b)
        ok = before == mid == after
        return ok, '%s.%s <- %r changes what %s shows (prec, dps, operator precision, operator rounding, pretty, trap_complex): %r -> %r -> %r' % (
            p['a'], which, n, p['b'], before, mid, after)
    finally:
        for k, c in cs.items():
            pr, pretty, trap = saved[k]
            c.prec = pr
            c.pretty = pretty
            if trap is not None:
                c.trap_complex = trap


def clone_prec(p):
    """MPContext.clone from an arbitrary entry precision P0 (dps = prec_to_dps(P0)): the clone's prec, dps and operator
    precision equal the original's, and the original is unchanged.  The constructor call itself runs natively (a fresh
    context of the current tree); everything after it is symbolic."""
    import mpmath
    mp = mpmath.mp
    PD, DP = ufs()
    models = make_models(PD, DP)
    fresh = []

    def m_ctor(eng, st, args, kw, fr):
        c = type(mp)()
        fresh.append(c)
        return [(st, NORMAL, c)]
    models[type(mp)] = m_ctor
    ob = Ob(W, models=models, timeout_s=p.get('_t', 30))
    P0 = ob.int('P0', 1, PMAX)
    D0 = ob.int('D0', 1, PMAX)
    ob.assume.append(PD(P0.t) == D0.t)
    heap = {(id(mp), '_prec'): (mp, P0), (id(mp), '_dps'): (mp, D0), (id(mp._prec_rounding), ('item', 0)): (mp._prec_rounding, P0)}
    import checks.fam_ctx as me
    outs = ob.run(me._drive_clone, [mp], {}, heap=heap)

    def good(val, st):
        oa, ob_, fresh_is_new = val
        want = (P0, D0, P0)
        gs = [zt(oa[i]) == zt(want[i]) for i in range(3)] + [zt(ob_[i]) == zt(want[i]) for i in range(3)]
        return [z3.And(gs + [z3.BoolVal(bool(fresh_is_new))])]
    return finish(ob, ob.prove(outs, good))


def _drive_clone(mp):
    c = mp.clone()
    return _observe(c), _observe(mp), (c is not mp) and (c._prec_rounding is not mp._prec_rounding) and (c.mpf is not mp.mpf)


_drive_clone._pysym_interpret = True


def clone_prec_concrete(p, m):
    import mpmath
    from mpmath.libmp import prec_to_dps
    mp = mpmath.mp
    P = m.get('P0', 53)
    old = mp.prec
    try:
        mp.prec = P
        c = mp.clone()
        got = (c.prec, c.dps, c.mpf._ctxdata[2][0])
        want = (P, prec_to_dps(P), P)
        ok = got == want and (mp.prec, mp.dps) == want[:2] and c._prec_rounding is not mp._prec_rounding and c.mpf is not mp.mpf
        return ok, 'mp.prec = %d; c = mp.clone(): clone shows (prec, dps, operator precision) = %r, expected %r' % (P, got, want)
    finally:
        mp.prec = old
