"""C38: contexts are isolated from each other (precision / settings slots), and a clone starts at the same precision.

The real setters, precision managers and MPContext.clone are executed symbolically (new precision / entry precision
symbolic); the *other* context's observable state is read through the same post-state heap.  If two contexts shared any
of the objects that carry the precision (the _prec_rounding list that the number types' operators read through _ctxdata,
iv's _prec list, a shared mpf class, a class-level slot), the write through one context shows up in the read through the
other as a term depending on the symbolic value, and the solver returns the value that exposes it.
"""
import z3

from pysym import values as V
from pysym.values import G, SInt, SBool, Unknown, bvv, zt, zb, Unsupported
from pysym.engine import NORMAL, RAISE
from vlib.ob import Ob
from checks.fam_arith import finish
from checks.fam_prec import ufs, make_models, W, PMAX

B = bvv


def contexts():
    """fresh context objects for one obligation (built natively by the real constructors of the current tree)"""
    import mpmath
    mp = mpmath.mp
    c1 = mp.clone()
    c2 = c1.clone()
    return {'mp': mp, 'clone': c1, 'clone2': c2, 'iv': mpmath.iv, 'fp': mpmath.fp}


def _observe(ctx):
    """what a user of `ctx` can see of its configuration: precision, dps, the precision its number types' operators use,
    rounding mode, and the display/behaviour settings"""
    data = ctx.mpf._ctxdata[2] if hasattr(ctx.mpf, '_ctxdata') else None
    opprec = data[0] if data is not None else 0
    oprnd = data[1] if data is not None and len(data) > 1 else 0
    trap = ctx.trap_complex if hasattr(ctx, 'trap_complex') else 0
    return (ctx.prec, ctx.dps, opprec, oprnd, ctx.pretty, trap)


_observe._pysym_interpret = True


def _drive_set(a, b, which, n):
    before = _observe(b)
    if which == 'prec':
        a.prec = n
    elif which == 'dps':
        a.dps = n
    elif which == 'pretty':
        a.pretty = n
    elif which == 'trap_complex':
        a.trap_complex = n
    after = _observe(b)
    return before, after, after


_drive_set._pysym_interpret = True


def _drive_mgr(a, b, which, n):
    before = _observe(b)
    with getattr(a, which)(n):
        mid = _observe(b)
    after = _observe(b)
    return before, mid, after


_drive_mgr._pysym_interpret = True


def _same(x, y):
    """z3 Bool: two observed tuples are equal"""
    if len(x) != len(y):
        return z3.BoolVal(False)
    gs = []
    for u, v in zip(x, y):
        if isinstance(u, (SInt, SBool)) or isinstance(v, (SInt, SBool)):
            if isinstance(u, (bool, SBool)) and isinstance(v, (bool, SBool)):
                gs.append(zb(u) == zb(v))
            elif isinstance(u, (int, SInt)) and isinstance(v, (int, SInt)) and not isinstance(u, bool) and not isinstance(v, bool):
                gs.append(zt(u) == zt(v))
            else:
                gs.append(z3.BoolVal(False))
        else:
            gs.append(z3.BoolVal(u == v and type(u) is type(v)))
    return z3.And(gs) if gs else z3.BoolVal(True)


def isolation(p):
    """changing a setting of context `a` (prec, dps, pretty, trap_complex; or running a body under one of a's precision
    managers) with a symbolic new value leaves everything observable of context `b` unchanged (before == during == after)"""
    a_name, b_name, which = p['a'], p['b'], p['which']
    cs = contexts()
    a, b = cs[a_name], cs[b_name]
    PD, DP = ufs()
    ob = Ob(W, models=make_models(PD, DP), timeout_s=p.get('_t', 30))
    if which in ('pretty', 'trap_complex'):
        n = ob.bool('n')
    else:
        n = ob.int('n', 1, PMAX)
    import checks.fam_ctx as me
    if which in ('workprec', 'workdps', 'extraprec', 'extradps'):
        if not hasattr(a, which):
            raise Unsupported('%s has no %s' % (a_name, which))
        outs = ob.run(me._drive_mgr, [a, b, which, n])
    else:
        if which == 'trap_complex' and not hasattr(a, 'trap_complex'):
            raise Unsupported('%s has no trap_complex' % a_name)
        outs = ob.run(me._drive_set, [a, b, which, n])

    def good(val, st):
        before, mid, after = val
        return [z3.And(_same(before, mid), _same(before, after))]
    return finish(ob, ob.prove(outs, good))


def isolation_concrete(p, m):
    cs = contexts()
    a, b = cs[p['a']], cs[p['b']]
    which = p['which']
    n = m.get('n', 1)
    if which in ('pretty', 'trap_complex'):
        n = bool(n)

    def obs(ctx):
        data = getattr(ctx.mpf, '_ctxdata', None)
        data = data[2] if data is not None else None
        return (ctx.prec, ctx.dps, data[0] if data is not None else 0, data[1] if data is not None and len(data) > 1 else 0,
                ctx.pretty, getattr(ctx, 'trap_complex', 0))
    saved = {k: (c.prec, c.pretty, getattr(c, 'trap_complex', None)) for k, c in cs.items()}
    try:
        before = obs(b)
        if which in ('workprec', 'workdps', 'extraprec', 'extradps'):
            with getattr(a, which)(n):
                mid = obs(b)
        else:
            setattr(a, which, n)
            mid = obs(b)
        after = obs(b)
        ok = before == mid == after
        return ok, '%s.%s <- %r changes what %s shows (prec, dps, operator precision, operator rounding, pretty, trap_complex): %r -> %r -> %r' % (
            p['a'], which, n, p['b'], before, mid, after)
    finally:
        for k, c in cs.items():
            pr, pretty, trap = saved[k]
            c.prec = pr
            c.pretty = pretty
            if trap is not None:
                c.trap_complex = trap


def clone_prec(p):
    """MPContext.clone from an arbitrary entry precision P0 (dps = prec_to_dps(P0)): the clone's prec, dps and operator
    precision equal the original's, and the original is unchanged.  The constructor call itself runs natively (a fresh
    context of the current tree); everything after it is symbolic."""
    import mpmath
    mp = mpmath.mp
    PD, DP = ufs()
    models = make_models(PD, DP)
    fresh = []

    def m_ctor(eng, st, args, kw, fr):
        c = type(mp)()
        fresh.append(c)
        return [(st, NORMAL, c)]
    models[type(mp)] = m_ctor
    ob = Ob(W, models=models, timeout_s=p.get('_t', 30))
    P0 = ob.int('P0', 1, PMAX)
    D0 = ob.int('D0', 1, PMAX)
    ob.assume.append(PD(P0.t) == D0.t)
    heap = {(id(mp), '_prec'): (mp, P0), (id(mp), '_dps'): (mp, D0), (id(mp._prec_rounding), ('item', 0)): (mp._prec_rounding, P0)}
    import checks.fam_ctx as me
    outs = ob.run(me._drive_clone, [mp], {}, heap=heap)

    def good(val, st):
        oa, ob_, fresh_is_new = val
        want = (P0, D0, P0)
        gs = [zt(oa[i]) == zt(want[i]) for i in range(3)] + [zt(ob_[i]) == zt(want[i]) for i in range(3)]
        return [z3.And(gs + [z3.BoolVal(bool(fresh_is_new))])]
    return finish(ob, ob.prove(outs, good))


def _drive_clone(mp):
    c = mp.clone()
    return _observe(c), _observe(mp), (c is not mp) and (c._prec_rounding is not mp._prec_rounding) and (c.mpf is not mp.mpf)


_drive_clone._pysym_interpret = True


def clone_prec_concrete(p, m):
    import mpmath
    from mpmath.libmp import prec_to_dps
    mp = mpmath.mp
    P = m.get('P0', 53)
    old = mp.prec
    try:
        mp.prec = P
        c = mp.clone()
        got = (c.prec, c.dps, c.mpf._ctxdata[2][0])
        want = (P, prec_to_dps(P), P)
        ok = got == want and (mp.prec, mp.dps) == want[:2] and c._prec_rounding is not mp._prec_rounding and c.mpf is not mp.mpf
        return ok, 'mp.prec = %d; c = mp.clone(): clone shows (prec, dps, operator precision) = %r, expected %r' % (P, got, want)
    finally:
        mp.prec = old


# ------------------------------------------------------------------------------ values crossing between contexts
def _drive_cross(b, x, how, n):
    """hand a number object of another context to context b (at precision n); return what b made of it"""
    b.prec = n
    if how == 'convert':
        y = b.convert(x)
    elif how == 'mpf':
        y = b.mpf(x)
    elif how == 'mpc':
        y = b.mpc(x)
    elif how == 'mpmathify':
        y = b.mpmathify(x)
    else:
        y = b.convert(x)
    return y, _observe(b)


_drive_cross._pysym_interpret = True


def _cross_parts(v, st, kind):
    if kind == 'mpc':
        h = st.heap.get((id(v), '_mpc_'))
        t = h[1] if h is not None else v._mpc_
        return list(t)
    h = st.heap.get((id(v), '_mpf_'))
    return [h[1] if h is not None else v._mpf_]


def cross_value(p):
    """a number created by context a (an mpf with arbitrary sign/mantissa/exponent, or an mpc with such parts) handed to
    context b's conversion entry points while b sits at a symbolic precision n: the result is an object of b's OWN number
    class (so that later arithmetic on it uses b's precision and rounding, not a's) carrying the same raw value, and b's
    configuration still shows n."""
    a_name, b_name, how, kind = p['a'], p['b'], p['how'], p.get('kind', 'mpf')
    cs = contexts()
    a, b = cs[a_name], cs[b_name]
    PD, DP = ufs()
    ob = Ob(W, models=make_models(PD, DP), timeout_s=p.get('_t', 30))
    n = ob.int('n', 1, PMAX)
    bc = p.get('bc', 60)
    xr = ob.mpf('x', bc, E=1000)
    if kind == 'mpc':
        xi = ob.mpf('y', p.get('bc2', 7), E=1000)
        x = a.make_mpc((xr, xi))
        src = [xr, xi]
    else:
        x = a.make_mpf(xr)
        src = [xr]
    import checks.fam_ctx as me
    outs = ob.run(me._drive_cross, [b, x, how, n])
    want_cls = b.mpc if (kind == 'mpc' or how == 'mpc') else b.mpf

    def good(val, st):
        y, seen = val
        if type(y) is not want_cls:
            return False
        parts = _cross_parts(y, st, 'mpc' if want_cls is b.mpc else 'mpf')
        gs = [zt(seen[0]) == zt(n), zt(seen[2]) == zt(n)]
        for got, want in zip(parts, src):
            if not isinstance(got, tuple) or len(got) != 4:
                return False
            same = z3.And([zt(got[i]) == zt(want[i]) for i in range(4)])
            if how in ('mpf', 'mpc'):
                # the constructors round to b's precision (C10/C02 decide how); here: b's precision is the one that was used --
                # no more than n bits, and unchanged whenever the value already fits n bits
                gs.append(z3.ULE(zt(got[3]), zt(n)))
                gs.append(z3.Implies(z3.ULE(zt(want[3]), zt(n)), same))
            else:
                gs.append(same)
        return [z3.And(gs)]
    return finish(ob, ob.prove(outs, good))


def cross_value_concrete(p, m):
    from checks.fam_arith import mk_tuple
    cs = contexts()
    a, b = cs[p['a']], cs[p['b']]
    how, kind = p['how'], p.get('kind', 'mpf')
    n = m.get('n', 53)
    xr = mk_tuple(m, 'x', p.get('bc', 60))
    saved = {k: c.prec for k, c in cs.items()}
    try:
        if kind == 'mpc':
            xi = mk_tuple(m, 'y', p.get('bc2', 7))
            x = a.make_mpc((xr, xi))
            src = (xr, xi)
        else:
            x = a.make_mpf(xr)
            src = xr
        b.prec = n
        y = getattr(b, how)(x)
        want_cls = b.mpc if (kind == 'mpc' or how == 'mpc') else b.mpf
        if want_cls is b.mpc:
            got = y._mpc_ if hasattr(y, '_mpc_') else None
            if kind != 'mpc':
                src = (xr, (0, 0, 0, 0))
        else:
            got = getattr(y, '_mpf_', None)
        if how in ('mpf', 'mpc'):
            from mpmath.libmp import mpf_pos
            src = tuple(mpf_pos(t, n, 'n') for t in src) if want_cls is b.mpc else mpf_pos(src, n, 'n')
        ok = type(y) is want_cls and got == src and b.prec == n
        return ok, '%s.%s(<%s.%s %r>) with %s.prec = %d gives %s.%s %r (expected an object of %s\'s own class with the same value)' % (
            p['b'], how, p['a'], kind, src, p['b'], n, type(y).__module__, type(y).__name__, got, p['b'])
    finally:
        for k, c in cs.items():
            c.prec = saved[k]


# ------------------------------------------------------------------------------ coupling through results: shared stores
_MUT = (dict, list, set)
_STORE_METHODS = ('append', 'extend', 'update', 'setdefault', 'add', 'insert', 'pop', 'clear', 'remove')


def shared_roots():
    """id -> description of every mutable container that all contexts can reach without going through a context object:
    module globals, default arguments of functions, class attributes (one level of nesting)."""
    import sys
    import types
    roots = {}

    def add(v, what, depth=0):
        if isinstance(v, _MUT) and id(v) not in roots:
            roots[id(v)] = what
            if depth < 1:
                for w in (v.values() if isinstance(v, dict) else v):
                    add(w, what + ' (nested)', depth + 1)

    def add_fn(f, qn):
        for i, d in enumerate(f.__defaults__ or ()):
            names = f.__code__.co_varnames[:f.__code__.co_argcount]
            add(d, 'default argument %s of %s' % (names[len(names) - len(f.__defaults__) + i], qn))
        for k, d in (f.__kwdefaults__ or {}).items():
            add(d, 'default argument %s of %s' % (k, qn))
    for mn, mod in sorted(sys.modules.items()):
        if not mn.startswith('mpmath') or mod is None or '.tests' in mn:
            continue
        for name, obj in list(vars(mod).items()):
            if name.startswith('__'):
                continue
            if isinstance(obj, types.FunctionType):
                add_fn(obj, '%s.%s' % (mn, name))
            elif isinstance(obj, type) and (obj.__module__ or '').startswith('mpmath'):
                for k, v in list(vars(obj).items()):
                    if isinstance(v, types.FunctionType):
                        add_fn(v, '%s.%s.%s' % (mn, obj.__name__, k))
                    elif not k.startswith('__'):
                        add(v, 'class attribute %s.%s' % (obj.__name__, k))
            else:
                add(obj, 'module global %s.%s' % (mn, name))
    return roots


def _may_store(fn):
    """cheap syntactic pre-filter: the function's own source (nested defs included) contains a subscript store or a call of a
    mutating container method"""
    import ast
    from pysym import srcmap
    try:
        node, info = srcmap.lookup(fn)
    except Exception:
        return False
    for n in ast.walk(node):
        if isinstance(n, ast.Subscript) and isinstance(n.ctx, (ast.Store, ast.Del)):
            return True
        if isinstance(n, ast.Call) and isinstance(n.func, ast.Attribute) and n.func.attr in _STORE_METHODS:
            return True
    return False


def store_candidates():
    """(module, qualname) of every function of the loaded mpmath modules that takes the context as first parameter `ctx` and may
    store into a container"""
    import sys
    import types
    import mpmath       # noqa
    out, seen = [], set()
    for mn, mod in sorted(sys.modules.items()):
        if not mn.startswith('mpmath') or mod is None or '.tests' in mn or mn.startswith('mpmath.libmp'):
            continue
        for name, obj in list(vars(mod).items()):
            cands = []
            if isinstance(obj, types.FunctionType):
                cands.append((name, obj))
            elif isinstance(obj, type) and (obj.__module__ or '').startswith('mpmath'):
                for k, v in vars(obj).items():
                    if isinstance(v, types.FunctionType):
                        cands.append((obj.__name__ + '.' + k, v))
            for qn, f in cands:
                if f.__code__ in seen or f.__module__ != mn or qn.split('.')[-1] in ('__init__', 'init_builtins', '_init_aliases'):
                    continue
                seen.add(f.__code__)
                an = f.__code__.co_varnames[:f.__code__.co_argcount]
                if not an or an[0] != 'ctx' or not _may_store(f):
                    continue
                out.append((mn, qn))
    return out


def _resolve_fn(modname, qn):
    import importlib
    obj = importlib.import_module(modname)
    for part in qn.split('.'):
        obj = getattr(obj, part)
    return obj


def _symbolicish(v, depth=0):
    if isinstance(v, (Unknown, SInt, SBool)) or type(v).__module__.startswith('pysym'):
        return True
    if isinstance(v, (tuple, list)) and depth < 3:
        return any(_symbolicish(w, depth + 1) for w in v)
    return False


def shared_store(p):
    """One function taking the context as first parameter, entered with arbitrary arguments (its defaulted parameters keep their
    defaults, as for a user), its callees replaced by arbitrary results: on no path may it store a value that depends on the
    call into a container that every context shares (module global, default argument, class attribute).  Such a store is how a
    result computed by one context (its number type, its precision) reaches the callers of another."""
    import types
    import mpmath
    fn = _resolve_fn(p['mod'], p['fn'])
    roots = shared_roots()
    ctx = mpmath.fp if p['mod'].endswith('ctx_fp') else mpmath.iv if p['mod'].endswith('ctx_iv') else mpmath.mp.clone()
    PD, DP = ufs()
    ob = Ob(W, abstract=True, models=make_models(PD, DP), max_unroll=2, timeout_s=p.get('_t', 30))
    ob.eng.inline_policy = lambda f, depth: depth <= 0 or ('<locals>' in getattr(f, '__qualname__', '') and depth < 3 and
                                                           getattr(f, '__module__', '') == p['mod'])
    code = fn.__code__
    nreq = code.co_argcount - len(fn.__defaults__ or ()) - 1
    args = [Unknown('arg%d' % i) for i in range(max(nreq, 0))]
    try:
        outs = ob.run(types.MethodType(fn, ctx), args, {}, heap={})
    except (TypeError, ValueError, AttributeError, IndexError, KeyError) as e:
        # the abstract interpreter met an operation it has no rule for on an arbitrary value: nothing is claimed for this function
        raise Unsupported('abstract scan stopped: %s: %s' % (type(e).__name__, str(e)[:120]))
    hits = {}
    for st, kind, val in outs:
        for key, (obj, v) in st.heap.items():
            if id(obj) in roots and _symbolicish(v):
                hits[roots[id(obj)]] = hits.get(roots[id(obj)], 0) + 1
    res = dict(status='proved' if not hits else 'violated', model={'stores': sorted(hits)},
               detail='' if not hits else 'stores a call-dependent value into %s' % '; '.join(sorted(hits)))
    res = finish(ob, res)
    res['stats']['extra'].update(exits=len(outs), shared_containers=len(roots), stubbed=len(ob.eng.stubbed))
    return res


def _examples_for(modname, qn):
    """doctest expressions that exercise the function: its own examples if it is public, otherwise those of the public functions
    of the same module whose source mentions it"""
    import doctest
    import importlib
    import inspect
    import types
    import mpmath
    name = qn.split('.')[-1]
    mod = importlib.import_module(modname)
    owners = []
    if not name.startswith('_') and hasattr(mpmath.mp, name):
        owners.append(name)
    for n, f in vars(mod).items():
        if isinstance(f, types.FunctionType) and n != name and hasattr(mpmath.mp, n) and not n.startswith('_'):
            try:
                src = inspect.getsource(f)
            except Exception:
                continue
            if name + '(' in src:
                owners.append(n)
    exprs = []
    for n in owners:
        doc = getattr(getattr(mpmath.mp, n), '__doc__', None) or ''
        try:
            exs = doctest.DocTestParser().get_examples(doc)
        except Exception:
            continue
        for e in exs:
            s = e.source.strip()
            if n + '(' not in s or '\n' in s:
                continue
            try:
                compile(s, '<doc>', 'eval')
            except SyntaxError:
                continue
            exprs.append(s)
    return exprs


def shared_store_concrete(p, m):
    """dynamic confirmation with two real contexts: the documented example calls of the function are evaluated by context Y alone
    (fresh process) and by Y after context X evaluated the same calls; the results of Y (number type and exact value) must agree"""
    import os
    import pickle
    import signal
    exprs = _examples_for(p['mod'], p['fn'])[:8]
    if not exprs:
        return None, 'UNCONFIRMED: %s; no documented example call to confirm it with' % m.get('stores')

    def make(kind):
        import mpmath
        if kind == 'fp':
            return mpmath.fp
        c = mpmath.mp.clone()
        c.prec = int(kind[2:])
        return c

    def describe(ctx, r):
        own = [getattr(ctx, 'mpf', None), getattr(ctx, 'mpc', None)] if ctx is not __import__('mpmath').fp else [float, complex, int]
        def one(x):
            if isinstance(x, (tuple, list)):
                return [one(y) for y in x]
            t = type(x)
            return (t.__name__, 'own' if t in own else 'other', repr(getattr(x, '_mpf_', getattr(x, '_mpc_', x))))
        return one(r)

    def evaluate(kinds):
        """child process: evaluate all examples under each context of `kinds` in turn; return the descriptions for the last"""
        rd, wr = os.pipe()
        pid = os.fork()
        if pid == 0:
            out = []
            try:
                os.close(rd)
                signal.alarm(25)
                for kind in kinds:
                    ctx = make(kind)
                    ns = {n: getattr(ctx, n) for n in dir(ctx) if not n.startswith('_')}
                    out = []
                    for s in exprs:
                        try:
                            out.append(describe(ctx, eval(s, dict(ns))))
                        except Exception as e:
                            out.append(('raised', type(e).__name__))
                os.write(wr, pickle.dumps(out))
            finally:
                os._exit(0)
        os.close(wr)
        data = b''
        while True:
            chunk = os.read(rd, 65536)
            if not chunk:
                break
            data += chunk
        os.close(rd)
        os.waitpid(pid, 0)
        return pickle.loads(data) if data else None
    for x, y in (('mp200', 'mp30'), ('fp', 'mp40'), ('mp200', 'fp'), ('mp30', 'mp200')):
        alone = evaluate([y])
        after = evaluate([x, y])
        if alone is None or after is None:
            continue
        for s, u, v in zip(exprs, alone, after):
            if u != v:
                return False, ('%s evaluated by context %s gives %r on its own but %r after context %s evaluated the same call (%s)'
                               % (s, y, u, v, x, '; '.join(m.get('stores', []))))[:600]
    return None, 'UNCONFIRMED: %s, but the documented example calls give identical results with and without an earlier evaluation by another context' % m.get('stores')
