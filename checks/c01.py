"""C01 -- every real value has one canonical representation."""
from checks import c02 as _c02, c06 as _c06

PROPERTY = 'C01'
LEVEL = 'other'
EXPLANATION = (
    "Bounded symbolic verification of the representation invariant at every producer of raw mpf tuples that the engine reaches: "
    "for each operand shape the real source (libmpf kernels, and the mpc/mpi routines that call them) is executed symbolically and "
    "the solver decides that every returned tuple is either exactly fzero or has sign in {0,1}, an ODD mantissa > 0 and a bit "
    "count equal to the mantissa's true bit length (2^(bc-1) <= man < 2^bc), for ALL mantissa bits, signs and base exponents of "
    "the shape; special results must be exactly one of the three special encodings.  The consequence 'numerically equal <=> "
    "identical tuple' is checked on symbolic operands in families eq_identity (mpf_eq/mpf_cmp == 0 against exact value equality). "
    "Pickle round trip of the tuple encoding (to_pickable/from_pickable) including the special encodings is family pickle."
)
TRUSTED = _c02.TRUSTED
ASSUMPTIONS = ["inputs are canonical raw mpf tuples (this same invariant, discharged inductively by checking every producer)",
               "base exponents within +-2^30"]
BUDGET = {'quick': dict(ob_deadline_s=100, total_s=160), 'thorough': dict(ob_deadline_s=600, total_s=1500)}
BOUNDS = {'quick': 'the shape grids of C02 and C06 (all producers there) with the canonical-form assertion, plus C05 equality shapes and pickle encodings'}


def derive(obs, aspect, keep=lambda spec, p: True):
    out = []
    seen = set()
    for spec, p in obs:
        fam = spec.split(':')[1]
        if fam in ('to_int', 'shift_frexp'):
            continue
        q = dict(p)
        if fam != 'special':
            q['aspect'] = aspect
        if not keep(spec, q):
            continue
        key = (spec, tuple(sorted((k, str(v)) for k, v in q.items())))
        if key in seen:
            continue
        seen.add(key)
        out.append((spec, q))
    return out


def obligations(tier, seed=0):
    obs = derive(_c02.obligations(tier, seed) + _c06.obligations(tier, seed), 'canon')
    # real and imaginary parts of complex results (quick tier: a third of C04's arithmetic grid)
    from checks import c04 as _c04
    cx = [(s_, p_) for s_, p_ in _c04.obligations(tier, seed) if s_.split(':')[1] in ('caddsub', 'cmul', 'cmul_int', 'cunary')
          and p_.get('entry', 'libmp') == 'libmp']
    obs += derive(cx if tier == 'thorough' else cx[::3], 'canon')
    obs.append(('checks.fam_arith2:shift_frexp', dict(bc=7, fn='mpf_shift')))
    obs.append(('checks.fam_arith2:shift_frexp', dict(bc=7, fn='mpf_frexp')))
    obs.append(('checks.fam_arith2:shift_frexp', dict(bc=1, fn='mpf_frexp')))
    # every spelling of a special value is stored in its one canonical encoding
    for src, texts in (('Decimal', ['0', '-0', '0E+7', '-0E-12', '-0.000', '0.0']), ('str', ['0', '-0', '0.0', '-0.0', '0e5', '-0e-5', '00.000', '.0']),
                       ('float', ['0.0', '-0.0']), ('convert', ['-0', '0E+3', '-0.0'])):
        for t in texts:
            obs.append(('checks.fam_cmp:special_encoding', dict(src=src, text=t, kind='zero')))
    for src, table in (('Decimal', [('Infinity', 'inf'), ('-Infinity', 'ninf'), ('NaN', 'nan'), ('-NaN', 'nan')]),
                       ('str', [('inf', 'inf'), ('+inf', 'inf'), ('-inf', 'ninf'), ('nan', 'nan')]),
                       ('float', [('inf', 'inf'), ('-inf', 'ninf'), ('nan', 'nan')]), ('convert', [('Infinity', 'inf'), ('-Infinity', 'ninf'), ('NaN', 'nan')])):
        for t, k in table:
            obs.append(('checks.fam_cmp:special_encoding', dict(src=src, text=t, kind=k)))
    # integer powers of complex numbers with special parts (rotation branch of purely imaginary bases, infinities, nan)
    for re_, im_ in (('zero', 'inf'), ('zero', 'ninf'), ('zero', 'nan'), ('inf', 'zero'), ('ninf', 'zero'), ('inf', 'inf'), ('nan', 'zero'),
                     ('zero', 'fin'), ('fin', 'zero'), ('zero', 'zero'), ('ninf', 'inf'), ('nan', 'nan')):
        for n in ((-3, -2, -1, 0, 1, 2, 3, 4, 5, 6, 7) if tier == 'quick' else range(-9, 14)):
            obs.append(('checks.fam_mpc:cpow_int_special', dict(re=re_, im=im_, n=n, prec=10, rnd='n')))
            if tier == 'thorough':
                for rnd in 'fcdu':
                    obs.append(('checks.fam_mpc:cpow_int_special', dict(re=re_, im=im_, n=n, prec=10, rnd=rnd)))
    try:
        from checks import c01_extra
        obs += c01_extra.obligations(tier, seed)
    except ImportError:
        pass
    return obs
