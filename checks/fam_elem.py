"""Families for exact cases / special values of elementary functions (C13, partial)."""
import z3

from pysym import values as V
from pysym.values import G, SInt, SBool, bvv, zt, zb, Unsupported
from vlib.ob import Ob, add
from vlib import oracle as O
from vlib.oracle import B, canonical, is_tuple, FZERO, FNAN, FINF, FNINF
from checks.fam_arith import finish, wbump, mk_tuple, FALSE, TRUE, E30, SPECIALS

FONE = (0, 1, 0, 1)
FNONE = (1, 1, 0, 1)

# (function, argument kind) -> expected tuple (or tuple of tuples)
TABLE = {
    ('mpf_exp', 'zero'): FONE, ('mpf_exp', 'inf'): FINF, ('mpf_exp', 'ninf'): FZERO, ('mpf_exp', 'nan'): FNAN,
    ('mpf_log', 'zero'): FNINF, ('mpf_log', 'inf'): FINF, ('mpf_log', 'nan'): FNAN, ('mpf_log', 'one'): FZERO,
    ('mpf_atan', 'zero'): FZERO, ('mpf_atan', 'nan'): FNAN,
    ('mpf_cos', 'zero'): FONE, ('mpf_sin', 'zero'): FZERO, ('mpf_tan', 'zero'): FZERO,
    ('mpf_cos', 'inf'): FNAN, ('mpf_sin', 'ninf'): FNAN, ('mpf_cos', 'nan'): FNAN,
    ('mpf_cosh', 'inf'): FINF, ('mpf_cosh', 'ninf'): FINF, ('mpf_sinh', 'inf'): FINF, ('mpf_sinh', 'ninf'): FNINF,
    ('mpf_tanh', 'inf'): FONE, ('mpf_tanh', 'ninf'): FNONE, ('mpf_cosh', 'nan'): FNAN,
    ('mpf_sqrt', 'zero'): FZERO, ('mpf_sqrt', 'inf'): FINF, ('mpf_sqrt', 'nan'): FNAN,
    ('mpf_asinh', 'zero'): FZERO, ('mpf_atanh', 'zero'): FZERO, ('mpf_asin', 'zero'): FZERO,
}


def special_value(p):
    """elementary kernel on a special argument, for a SYMBOLIC precision in [1, 4096] and a concrete rounding mode"""
    from mpmath.libmp import libelefun, libmpf
    fn, a, rnd = p['fn'], p['a'], p['rnd']
    ob = Ob(64, timeout_s=p.get('_t', 60))
    prec = ob.int('prec', 1, 4096)
    arg = FONE if a == 'one' else SPECIALS[a]
    f = getattr(libelefun, fn, None) or getattr(libmpf, fn)
    outs = ob.run(f, [arg, prec, rnd])
    want = TABLE[(fn, a)]
    return finish(ob, ob.prove(outs, lambda v, st: is_tuple(v, want) if isinstance(v, tuple) and len(v) == 4 else False))


def special_value_concrete(p, m):
    from mpmath.libmp import libelefun, libmpf
    fn, a, rnd = p['fn'], p['a'], p['rnd']
    arg = FONE if a == 'one' else SPECIALS[a]
    f = getattr(libelefun, fn, None) or getattr(libmpf, fn)
    r = f(arg, m.get('prec', 53), rnd)
    want = TABLE[(fn, a)]
    return tuple(r) == want, '%s(%s, prec=%d, %r) = %r, expected %r' % (fn, a, m.get('prec', 53), rnd, r, want)


def sincos_pi(p):
    """mpf_cos_sin(x, prec, rnd, which, pi=True) at integers and half-integers: exact values for every mantissa"""
    from mpmath.libmp import libelefun
    bc, exp, which, rnd = p['bc'], p['exp'], p['which'], p['rnd']
    ob = Ob(wbump(p, bc + 70), timeout_s=p.get('_t', 60))
    x = ob.mpf('x', bc, exp=exp)
    prec = ob.int('prec', 1, 4096)
    outs = ob.run(libelefun.mpf_cos_sin, [x, prec, rnd, which, True])
    neg = zt(x[0]) == B(1)
    m_ = zt(x[1])
    if exp == -1:
        # x = man/2, man odd: cos(pi x) = 0, sin(pi x) = +1 if man = 1 mod 4 else -1 (negated for x < 0)
        plus = z3.Xor((m_ & B(3)) == B(1), neg)
        cos_t = lambda v: is_tuple(v, FZERO)
        sin_t = lambda v: z3.If(plus, is_tuple(v, FONE), is_tuple(v, FNONE))
    elif exp == 0:
        cos_t = lambda v: is_tuple(v, FNONE)
        sin_t = lambda v: is_tuple(v, FZERO)
    else:
        cos_t = lambda v: is_tuple(v, FONE)
        sin_t = lambda v: is_tuple(v, FZERO)

    def good(val, st):
        if which == 0:
            if not isinstance(val, tuple) or len(val) != 2:
                return False
            return z3.And(cos_t(val[0]), sin_t(val[1]))
        if which == 1:
            return cos_t(val)
        if which == 2:
            return sin_t(val)
        # tan(pi x): 0 at integers; at half-integers the function has a pole (whatever is returned/raised is not judged here)
        if exp == -1:
            return TRUE
        return is_tuple(val, FZERO)

    def good_raise(exc, st):
        return which == 3 and exp == -1
    return finish(ob, ob.prove(outs, good, good_raise))


def sincos_pi_concrete(p, m):
    from mpmath.libmp import libelefun
    from fractions import Fraction
    x = mk_tuple(m, 'x', p['bc'], exp=p['exp'])
    which = p['which']
    try:
        r = libelefun.mpf_cos_sin(x, m.get('prec', 53), p['rnd'], which, True)
    except Exception as e:
        return (which == 3 and p['exp'] == -1), 'raised %r' % (e,)
    v = O.frac_of(x)
    if p['exp'] == -1:
        k = (v - Fraction(1, 2))
        s = FONE if int(k) % 2 == 0 else FNONE
        c = FZERO
    else:
        c = FONE if int(v) % 2 == 0 else FNONE
        s = FZERO
    want = {0: (c, s), 1: c, 2: s, 3: s}[which]
    if which == 3 and p['exp'] == -1:
        return True, ''
    ok = (tuple(map(tuple, r)) == want) if which == 0 else (tuple(r) == want)
    return ok, 'mpf_cos_sin(%r, which=%d, pi=True) = %r, expected %r' % (x, which, r, want)
