"""Families for exact cases / special values of elementary functions (C13, partial)."""
import z3

from pysym import values as V
from pysym.values import G, SInt, SBool, bvv, zt, zb, Unsupported
from vlib.ob import Ob, add
from vlib import oracle as O
from vlib.oracle import B, canonical, is_tuple, value_matches, FZERO, FNAN, FINF, FNINF
from checks.fam_arith import finish, wbump, mk_tuple, FALSE, TRUE, E30, SPECIALS, _ctx

FONE = (0, 1, 0, 1)
FNONE = (1, 1, 0, 1)

# (function, argument kind) -> expected tuple (or tuple of tuples)
TABLE = {
    ('mpf_exp', 'zero'): FONE, ('mpf_exp', 'inf'): FINF, ('mpf_exp', 'ninf'): FZERO, ('mpf_exp', 'nan'): FNAN,
    ('mpf_log', 'zero'): FNINF, ('mpf_log', 'inf'): FINF, ('mpf_log', 'nan'): FNAN, ('mpf_log', 'one'): FZERO,
    ('mpf_atan', 'zero'): FZERO, ('mpf_atan', 'nan'): FNAN,
    ('mpf_cos', 'zero'): FONE, ('mpf_sin', 'zero'): FZERO, ('mpf_tan', 'zero'): FZERO,
    ('mpf_cos', 'inf'): FNAN, ('mpf_sin', 'ninf'): FNAN, ('mpf_cos', 'nan'): FNAN,
    ('mpf_cosh', 'inf'): FINF, ('mpf_cosh', 'ninf'): FINF, ('mpf_sinh', 'inf'): FINF, ('mpf_sinh', 'ninf'): FNINF,
    ('mpf_tanh', 'inf'): FONE, ('mpf_tanh', 'ninf'): FNONE, ('mpf_cosh', 'nan'): FNAN,
    ('mpf_sqrt', 'zero'): FZERO, ('mpf_sqrt', 'inf'): FINF, ('mpf_sqrt', 'nan'): FNAN,
    ('mpf_asinh', 'zero'): FZERO, ('mpf_atanh', 'zero'): FZERO, ('mpf_asin', 'zero'): FZERO,
}


def special_value(p):
    """elementary kernel on a special argument, for a SYMBOLIC precision in [1, 4096] and a concrete rounding mode"""
    from mpmath.libmp import libelefun, libmpf
    fn, a, rnd = p['fn'], p['a'], p['rnd']
    ob = Ob(64, timeout_s=p.get('_t', 60))
    prec = ob.int('prec', 1, 4096)
    arg = FONE if a == 'one' else SPECIALS[a]
    f = getattr(libelefun, fn, None) or getattr(libmpf, fn)
    outs = ob.run(f, [arg, prec, rnd])
    want = TABLE[(fn, a)]
    return finish(ob, ob.prove(outs, lambda v, st: is_tuple(v, want) if isinstance(v, tuple) and len(v) == 4 else False))


def special_value_concrete(p, m):
    from mpmath.libmp import libelefun, libmpf
    fn, a, rnd = p['fn'], p['a'], p['rnd']
    arg = FONE if a == 'one' else SPECIALS[a]
    f = getattr(libelefun, fn, None) or getattr(libmpf, fn)
    r = f(arg, m.get('prec', 53), rnd)
    want = TABLE[(fn, a)]
    return tuple(r) == want, '%s(%s, prec=%d, %r) = %r, expected %r' % (fn, a, m.get('prec', 53), rnd, r, want)


def sincos_pi(p):
    """mpf_cos_sin(x, prec, rnd, which, pi=True) at integers and half-integers: exact values for every mantissa"""
    from mpmath.libmp import libelefun
    bc, exp, which, rnd = p['bc'], p['exp'], p['which'], p['rnd']
    ob = Ob(wbump(p, bc + 70), timeout_s=p.get('_t', 60))
    x = ob.mpf('x', bc, exp=exp)
    prec = ob.int('prec', 1, 4096)
    outs = ob.run(libelefun.mpf_cos_sin, [x, prec, rnd, which, True])
    neg = zt(x[0]) == B(1)
    m_ = zt(x[1])
    if exp == -1:
        # x = man/2, man odd: cos(pi x) = 0, sin(pi x) = +1 if man = 1 mod 4 else -1 (negated for x < 0)
        plus = z3.Xor((m_ & B(3)) == B(1), neg)
        cos_t = lambda v: is_tuple(v, FZERO)
        sin_t = lambda v: z3.If(plus, is_tuple(v, FONE), is_tuple(v, FNONE))
    elif exp == 0:
        cos_t = lambda v: is_tuple(v, FNONE)
        sin_t = lambda v: is_tuple(v, FZERO)
    else:
        cos_t = lambda v: is_tuple(v, FONE)
        sin_t = lambda v: is_tuple(v, FZERO)

    def good(val, st):
        if which == 0:
            if not isinstance(val, tuple) or len(val) != 2:
                return False
            return z3.And(cos_t(val[0]), sin_t(val[1]))
        if which == 1:
            return cos_t(val)
        if which == 2:
            return sin_t(val)
        # tan(pi x): 0 at integers; at half-integers the function has a pole (whatever is returned/raised is not judged here)
        if exp == -1:
            return TRUE
        return is_tuple(val, FZERO)

    def good_raise(exc, st):
        return which == 3 and exp == -1
    return finish(ob, ob.prove(outs, good, good_raise))


def sincos_pi_concrete(p, m):
    from mpmath.libmp import libelefun
    from fractions import Fraction
    x = mk_tuple(m, 'x', p['bc'], exp=p['exp'])
    which = p['which']
    try:
        r = libelefun.mpf_cos_sin(x, m.get('prec', 53), p['rnd'], which, True)
    except Exception as e:
        return (which == 3 and p['exp'] == -1), 'raised %r' % (e,)
    v = O.frac_of(x)
    if p['exp'] == -1:
        k = (v - Fraction(1, 2))
        s = FONE if int(k) % 2 == 0 else FNONE
        c = FZERO
    else:
        c = FONE if int(v) % 2 == 0 else FNONE
        s = FZERO
    want = {0: (c, s), 1: c, 2: s, 3: s}[which]
    if which == 3 and p['exp'] == -1:
        return True, ''
    ok = (tuple(map(tuple, r)) == want) if which == 0 else (tuple(r) == want)
    return ok, 'mpf_cos_sin(%r, which=%d, pi=True) = %r, expected %r' % (x, which, r, want)


# ------------------------------------------------------------------------------ final rounding of elementary kernels (C10)
def kernel_bits(p):
    """shortcut branches of elementary kernels that hand back (a function of) another kernel's result or of the argument:
    the value returned to the caller is canonical with at most `prec` bits.  Inner series kernels are stubs returning an
    ARBITRARY canonical mpf of exactly the precision they were asked for."""
    from mpmath.libmp import libelefun, libmpf
    from pysym.engine import NORMAL
    case, prec, rnd = p['case'], p['prec'], p['rnd']
    ob = Ob(wbump(p, prec + 120), timeout_s=p.get('_t', 60))
    cnt = [0]

    def stub(eng, st, args, kw, fr):
        # (x, prec[, rnd]) -> arbitrary positive canonical mpf with exactly `prec` bits
        q = args[1]
        if not isinstance(q, int):
            raise Unsupported('stubbed kernel called with a symbolic precision')
        cnt[0] += 1
        n0 = len(ob.assume)
        t = ob.mpf('k%d' % cnt[0], q, sign=0)
        G.SIDE.extend(ob.assume[n0:])          # created after the run started: its range/parity facts go to the side facts
        return [(st, NORMAL, t)]

    def stub_fixed(eng, st, args, kw, fr):
        q = args[0]
        cnt[0] += 1
        n0 = len(ob.assume)
        t = ob.int('fx%d' % cnt[0], 1 << (q - 2), (1 << (q + 2)) - 1)
        G.SIDE.extend(ob.assume[n0:])
        return [(st, NORMAL, t)]
    if case == 'cosh_large':
        x = ob.mpf('x', 3, exp=9)
        ob.eng.models[libelefun.mpf_exp] = stub
        outs = ob.run(libelefun.mpf_cosh_sinh, [x, prec, rnd])
    elif case == 'tanh_large':
        x = ob.mpf('x', 3, exp=9)
        outs = ob.run(libelefun.mpf_cosh_sinh, [x, prec, rnd, 1])
    elif case == 'exp_tiny':
        x = ob.mpf('x', 40, exp=-(prec + 80))
        outs = ob.run(libelefun.mpf_exp, [x, prec, rnd])
    elif case == 'cos_sin_tiny':
        x = ob.mpf('x', 40, exp=-(prec + 80))
        outs = ob.run(libelefun.mpf_cos_sin, [x, prec, rnd])
    elif case == 'tan_tiny':
        x = ob.mpf('x', 40, exp=-(prec + 80))
        outs = ob.run(libelefun.mpf_cos_sin, [x, prec, rnd, 3])
    elif case == 'atan_tiny':
        x = ob.mpf('x', 40, exp=-(prec + 90))
        outs = ob.run(libelefun.mpf_atan, [x, prec, rnd])
    elif case == 'sinh_tiny':
        x = ob.mpf('x', 40, exp=-(prec + 80))
        outs = ob.run(libelefun.mpf_cosh_sinh, [x, prec, rnd])
    elif case == 'log_pow2':
        e = ob.int('e', 1, 1 << 20)
        ob.eng.models[libelefun.ln2_fixed] = stub_fixed
        outs = ob.run(libelefun.mpf_log, [(0, 1, e, 1), prec, rnd])
    else:
        raise Unsupported(case)

    def ok(c):
        return z3.Or(is_tuple(c, FZERO), canonical(c, prec))

    def good(val, st):
        if isinstance(val, tuple) and len(val) == 2 and isinstance(val[0], tuple):
            return [ok(val[0]), ok(val[1])]
        return ok(val)
    return finish(ob, ob.prove(outs, good))


def kernel_bits_concrete(p, m):
    """run the real kernel on inputs of the obligation's shape (the stubbed inner kernels run for real)"""
    from mpmath.libmp import libelefun
    case, prec, rnd = p['case'], p['prec'], p['rnd']
    xm = m.get('x_man', 5)
    xs = m.get('x_sign', 0)
    if case in ('cosh_large', 'tanh_large'):
        x = (xs, xm if xm.bit_length() == 3 else 5, 9, 3)
        r = libelefun.mpf_cosh_sinh(x, prec, rnd, 1 if case == 'tanh_large' else 0)
    elif case == 'log_pow2':
        r = libelefun.mpf_log((0, 1, m.get('e', 7), 1), prec, rnd)
    else:
        x = (xs, xm, -(prec + (90 if case == 'atan_tiny' else 80)), xm.bit_length())
        r = {'exp_tiny': lambda: libelefun.mpf_exp(x, prec, rnd), 'cos_sin_tiny': lambda: libelefun.mpf_cos_sin(x, prec, rnd),
             'tan_tiny': lambda: libelefun.mpf_cos_sin(x, prec, rnd, 3), 'atan_tiny': lambda: libelefun.mpf_atan(x, prec, rnd),
             'sinh_tiny': lambda: libelefun.mpf_cosh_sinh(x, prec, rnd)}[case]()
    parts = list(r) if (isinstance(r, tuple) and len(r) == 2 and isinstance(r[0], tuple)) else [r]
    bad = [c for c in parts if not O.canonical_concrete(tuple(c), prec)]
    return not bad, '%s at prec %d returned a mantissa of %s bits' % (case, prec, [c[3] for c in parts])


# ------------------------------------------------------------------------------ special values that are multiples of pi
def _pi_want(fn, args):
    """(sign, shift) meaning sign * pi * 2**shift, or 'zero' / 'nan' -- the documented limits"""
    if fn == 'mpf_atan':
        return {'inf': (1, -1), 'ninf': (-1, -1), 'huge': (1, -1), 'nhuge': (-1, -1)}[args[0]]
    if fn == 'mpf_acos':
        return {'none': (1, 0)}[args[0]]
    y, x = args
    if y in ('inf', 'ninf'):
        if x in ('inf', 'ninf'):
            return 'nan'
        return (1, -1) if y == 'inf' else (-1, -1)
    if y == 'zero':
        return (1, 0) if x in ('neg', 'ninf') else 'zero'
    s = 1 if y == 'pos' else -1
    if x == 'inf':
        return 'zero'
    if x == 'ninf':
        return (s, 0)
    if x == 'zero':
        return (s, -1)
    raise Unsupported('not a special case')


def pi_special(p):
    """special-value branches that return a multiple of pi (atan2 on the axes and at infinities, atan(+-inf) and atan of
    huge arguments, acos(-1)): with mpf_pi replaced by an ARBITRARY constant in [2, 4) that is not representable at the working
    precision -- stub: mpf_pi(prec, rnd) returns its floor F or its ceiling F+1 at `prec` bits according to rnd, either of
    them for nearest -- the result is sign * (that constant rounded in the direction `rnd` asks for the SIGNED value) * 2**k.
    This is what interval code relies on: floor(-pi/2) must be -(ceil(pi)/2)."""
    from mpmath.libmp import libelefun, libmpf
    from pysym.engine import NORMAL
    fn, args, prec, rnd = p['fn'], p['args'], p['prec'], p['rnd']
    ob = Ob(wbump(p, prec + 70), timeout_s=p.get('_t', 60))
    F = ob.int('F', 1 << (prec - 1), (1 << prec) - 2)
    pick = ob.bit('nearest_is_ceiling')
    C = V.binop(__import__('operator').add, F, 1)
    N = V.merge(zt(pick) == B(1), C, F)
    e = 2 - prec
    calls = []

    def m_pi(eng, st, a, kw, fr):
        pr = a[0] if a else kw.get('prec')
        r = a[1] if len(a) > 1 else kw.get('rnd', 'd')
        if isinstance(pr, SInt) or pr != prec:
            raise Unsupported('mpf_pi called with a precision other than the working precision (%r)' % (pr,))
        calls.append(r)
        k = {'f': F, 'd': F, 'c': C, 'u': C, 'n': N}[r]
        return eng.call(st, libmpf.from_man_exp, [k, e], {}, fr)
    ob.eng.models[libelefun.mpf_pi] = m_pi

    def mk(kind, name):
        if kind in SPECIALS:
            return SPECIALS[kind]
        if kind == 'one':
            return FONE
        if kind == 'none':
            return FNONE
        if kind in ('pos', 'neg'):
            return ob.mpf(name, 5, sign=0 if kind == 'pos' else 1)
        if kind in ('huge', 'nhuge'):      # |x| >= 2**(prec+21): "essentially infinity" for atan
            return ob.mpf(name, 5, exp=ob.int(name + '_exp', prec + 17, prec + 60), sign=0 if kind == 'huge' else 1)
        raise Unsupported(kind)
    argv = [mk(k, 'a%d' % i) for i, k in enumerate(args)]
    outs = ob.run(getattr(libelefun, fn), argv + [prec, rnd])
    want = _pi_want(fn, args)
    NEG = {'f': 'c', 'c': 'f', 'd': 'd', 'u': 'u', 'n': 'n'}

    def good(val, st):
        if not (isinstance(val, tuple) and len(val) == 4):
            return False
        if want == 'zero':
            return is_tuple(val, FZERO)
        if want == 'nan':
            return is_tuple(val, FNAN)
        sgn, sh = want
        r = rnd if sgn > 0 else NEG[rnd]
        K = {'f': F, 'd': F, 'c': C, 'u': C, 'n': N}[r]
        return value_matches(val, z3.BoolVal(sgn < 0), zt(K), B(e + sh), prec + 2, prec)
    return finish(ob, ob.prove(outs, good))


def pi_special_concrete(p, m):
    """native replay against the real mpf_pi: the result must lie on the side of the exact value that `rnd` prescribes and
    be one of the two neighbours (pi bracketed by a 3000-bit fixed-point value)"""
    from fractions import Fraction
    from mpmath.libmp import libelefun, libmpf
    fn, args, prec, rnd = p['fn'], p['args'], p['prec'], p['rnd']

    def mk(kind, i):
        if kind in SPECIALS:
            return SPECIALS[kind]
        if kind == 'one':
            return FONE
        if kind == 'none':
            return FNONE
        man = m.get('a%d_man' % i, 17)
        exp = m.get('a%d_exp' % i, 0)
        return (0 if kind in ('pos', 'huge') else 1, man, exp, 5)
    argv = [mk(k, i) for i, k in enumerate(args)]
    r = getattr(libelefun, fn)(*argv, prec, rnd)
    want = _pi_want(fn, args)
    if want == 'zero':
        return tuple(r) == FZERO, '%s%r = %r, expected 0' % (fn, tuple(args), r)
    if want == 'nan':
        return tuple(r) == FNAN, '%s%r = %r, expected nan' % (fn, tuple(args), r)
    sgn, sh = want
    lo = Fraction(libelefun.pi_fixed(3000), 1 << 3000)
    hi = lo + Fraction(1, 1 << 2999)
    elo, ehi = (lo * Fraction(2) ** sh, hi * Fraction(2) ** sh) if sgn > 0 else (-hi * Fraction(2) ** sh, -lo * Fraction(2) ** sh)
    got = O.frac_of(r)
    ok_lo, d1 = O.check_rounded(r, elo, prec, rnd)
    ok_hi, d2 = O.check_rounded(r, ehi, prec, rnd)
    ok = ok_lo and ok_hi
    return ok, '%s%r at prec %d, rounding %s = %s; the exact value %s*pi*2**%d must round to %s' % (fn, tuple(args), prec, rnd, got, '-' if sgn < 0 else '', sh, d1 or d2)


# ------------------------------------------------------------------------------ exp of arguments so small that exp(x) rounds to 1 or its neighbour
def _near_one_want(prec, sign, rnd):
    """correct rounding at `prec` bits of a value strictly between 1 and 1 + 2**(-prec-10) (sign 0) or between
    1 - 2**(-prec-10) and 1 (sign 1)"""
    up = (0, (1 << (prec - 1)) + 1, 1 - prec, prec) if prec > 1 else (0, 1, 1, 1)
    down = (0, (1 << prec) - 1, -prec, prec)
    if not sign:
        return up if rnd in 'cu' else FONE
    return down if rnd in 'fd' else FONE


def exp_near_one(p):
    """mpf_exp(x, prec, rnd) for 0 < |x| < 2**(-prec-13+k) (k <= 1): exp(x) differs from 1 by less than 2**(-prec-12), so the
    correctly rounded result is 1 or the neighbour of 1 on the side of x, according to the mode -- in particular a directed
    mode never returns a value on the wrong side (what interval exp relies on).  The real code runs completely (the
    perturbation shortcut or exp_basecase on the truncated argument); mantissa bits symbolic."""
    from mpmath.libmp import libelefun
    prec, k, bc, sign, rnd = p['prec'], p['k'], p['bc'], p['sign'], p['rnd']
    wp = prec + 14
    mag = -wp + k
    ob = Ob(wbump(p, wp + bc + 70), timeout_s=p.get('_t', 60), max_unroll=400)
    x = ob.mpf('x', bc, exp=mag - bc, sign=sign)
    outs = ob.run(libelefun.mpf_exp, [x, prec, rnd])
    want = _near_one_want(prec, sign, rnd)
    return finish(ob, ob.prove(outs, lambda v, st: is_tuple(v, want) if isinstance(v, tuple) and len(v) == 4 else False))


def exp_near_one_concrete(p, m):
    from mpmath.libmp import libelefun
    prec, k, bc, sign, rnd = p['prec'], p['k'], p['bc'], p['sign'], p['rnd']
    wp = prec + 14
    x = mk_tuple(m, 'x', bc, exp=-wp + k - bc, sign=sign)
    r = libelefun.mpf_exp(x, prec, rnd)
    want = _near_one_want(prec, sign, rnd)
    return tuple(r) == want, 'mpf_exp(%r, %d, %r) = %r; exp(x) lies strictly between 1 and 1 %s 2**%d, whose rounding is %r' % (
        x, prec, rnd, tuple(r), '-' if sign else '+', -prec - 12, want)


# ------------------------------------------------------------------------------ arguments where the value is a known point +- an infinitesimal
# fn -> (kernel name, which-argument for mpf_cos_sin, base ('x' or 'one'), direction of |value| relative to |base| as a function of
# the sign of x: +1 larger, -1 smaller)
_NEAR = {
    'exp': ('mpf_exp', None, 'one', lambda s: -1 if s else +1),
    'atan': ('mpf_atan', None, 'x', lambda s: -1),
    'sin': ('mpf_sin', None, 'x', lambda s: -1),
    'tan': ('mpf_tan', None, 'x', lambda s: +1),
    'cos': ('mpf_cos', None, 'one', lambda s: -1),
    'sinh': ('mpf_sinh', None, 'x', lambda s: +1),
    'tanh': ('mpf_tanh', None, 'x', lambda s: -1),
    'cosh': ('mpf_cosh', None, 'one', lambda s: +1),
    'asinh': ('mpf_asinh', None, 'x', lambda s: -1),
    'log1': ('mpf_log', None, 'x', lambda s: +1 if s else -1),       # argument 1 + x; log(1+x) = x - x^2/2 + ...
    'exp1': ('mpf_exp', None, '1+x', lambda s: +1),                  # exp(x) = (1+x) + x^2/2 + ... for 1+x representable (needs 'mag')
    'log2': ('mpf_log', None, 'x-x2/2', lambda s: +1),               # argument 1 + x; |log(1+x)| = |x -+ x^2/2| + |x|^3/3 ... (second order)
}


def near_point(p):
    """elementary kernel at an argument so small (|x| < 2**(-prec-24)) that the exact value is x*(1 +- d) resp. 1 +- d with
    0 < d < 2**(-prec-20): the correctly rounded result in a DIRECTED mode is the rounding of 'base plus/minus an infinitesimal'
    (reference: textbook rounding of (base << (prec+3)) -/+ 1 with a sticky bit).  This is the regime of the kernels' perturbation
    shortcuts; interval functions rely on the direction being right.  'log1' evaluates mpf_log at 1 + x."""
    from mpmath.libmp import libelefun
    from vlib.oracle import ref_round
    fn, prec, rnd, sign, bc = p['fn'], p['prec'], p['rnd'], p['sign'], p['bc']
    kname, _, base, dirf = _NEAR[fn]
    ob = Ob(wbump(p, bc + 2 * prec + 90 + (2 * (prec + 40) if 'mag' in p else 0)), timeout_s=p.get('_t', 60), mul_precise_bits=4096, max_unroll=60)
    if fn in ('log1', 'log2'):
        # t = +-man * 2**-k (k concrete), x = 1 + t exactly
        k = p['k']
        man = ob.man('x_man', bc)
        if sign:
            xm = V.binop(__import__('operator').sub, 1 << k, man)
            x = (0, xm, -k, k)
        else:
            xm = V.binop(__import__('operator').add, 1 << k, man)
            x = (0, xm, -k, k + 1)
        t = (sign, man, -k, bc)
        arg, bt = x, t
        if fn == 'log1' and k - bc < prec + 24:
            raise Unsupported('shape not in the tiny regime')
        if fn == 'log2' and 3 * (k - bc) <= (k - bc) + prec + 3:
            raise Unsupported('third-order term not below an ulp')
    else:
        if 'mag' in p:
            # a concrete binary magnitude: |x| in [2**(mag-1), 2**mag); must satisfy 2*|mag| > prec + 8 so that the deviation of
            # the function from its leading term is far below an ulp (the regime between the perturbation shortcut and the
            # point where the series resolves the deviation)
            if 2 * (-p['mag']) <= prec + 3:
                raise Unsupported('magnitude too large for the infinitesimal-deviation oracle')
            e = p['mag'] - bc
        else:
            lo = -prec - 24 - p.get('span', 40)
            e = ob.int('x_exp', lo - bc, -prec - 24 - bc)
        x = ob.mpf('x', bc, exp=e, sign=sign)
        arg, bt = x, x
    outs = ob.run(getattr(libelefun, kname), [arg, prec, rnd])
    d = dirf(sign)
    if base == 'x-x2/2':
        # |log(1+t)| = |t| -+ t^2/2 (+ for t < 0) plus a positive infinitesimal: base magnitude (man*2^(k+1) -+ man^2) * 2^-(2k+1)
        k = p['k']
        mm = zt(bt[1])
        sq = V.narrow_mul(mm, mm, (0, (1 << bc) - 1), (0, (1 << bc) - 1))
        bman = ((mm << (k + 1)) + sq) if sign else ((mm << (k + 1)) - sq)
        bexp, bbc, neg = B(-2 * k - 1), k + 1 + bc, z3.BoolVal(bool(sign))
    elif base == '1+x':
        if 'mag' not in p:
            raise Unsupported('exp1 needs a concrete magnitude')
        k = bc - p['mag']                      # x = +-man * 2**-k
        one = B(1 << k)
        bman = (one - zt(x[1])) if sign else (one + zt(x[1]))
        bexp, bbc, neg = B(-k), (k if sign else k + 1), FALSE
    elif base == 'one':
        bman, bexp, bbc, neg = B(1), B(0), 1, FALSE
    else:
        bman, bexp, bbc, neg = zt(bt[1]), zt(bt[2]), bc, z3.BoolVal(bool(sign))
    S = prec + 3          # one unit of A is finer than an ulp of the prec-bit result
    A = (bman << S) - (B(1) if d < 0 else B(0))
    R = ref_round(A, TRUE, prec, rnd, neg, bbc + S - 1, bbc + S)

    exact_rounding = p.get('strict', False) and bbc <= prec and base != 'x-x2/2'        # base representable: the perturbation shortcut must then give the correctly rounded value;
                                        # for longer arguments only the SIDE (what enclosure needs) and 4 ulp closeness are demanded:
                                        # mpf_perturb deliberately over-steps there

    def good(val, st):
        if not (isinstance(val, tuple) and len(val) == 4):
            return False
        if exact_rounding:
            return value_matches(val, neg, R, bexp - B(S), bbc + S + 2, prec)
        rs, rm, re, rb = [zt(c) for c in val]
        dd = re - (bexp - B(S))
        Rint = rm << dd
        inrange = z3.And(dd >= B(0), dd <= B(bbc + S + 2), z3.LShR(Rint, dd) == rm)
        below = z3.ULE(Rint, A)                 # |R| <= |true|   (true magnitude in (A, A+1))
        above = z3.UGE(Rint, A + B(1))
        away = {'f': neg, 'c': z3.Not(neg), 'd': FALSE, 'u': TRUE}[rnd]
        side = z3.If(away, above, below)
        diff = z3.If(z3.UGE(Rint, A), Rint - A, A - Rint)
        close = z3.ULE(diff, B(1 << (bbc + S - prec + 2)))        # 4 units in the last place of a prec-bit number of base's size
        return [z3.And(canonical(val, prec), (rs == B(1)) == neg, inrange), z3.Implies(inrange, side), z3.Implies(inrange, close)]
    return finish(ob, ob.prove(outs, good))


def near_point_concrete(p, m):
    from fractions import Fraction
    from mpmath.libmp import libelefun, libmpf
    fn, prec, rnd, sign, bc = p['fn'], p['prec'], p['rnd'], p['sign'], p['bc']
    kname, _, base, dirf = _NEAR[fn]
    man = 1 if bc == 1 else m['x_man']
    if fn in ('log1', 'log2'):
        k = p['k']
        t = (sign, man, -k, bc)
        arg = libmpf.mpf_add(libmpf.fone, t, 0)
        bt = t
    else:
        arg = bt = (sign, man, m['x_exp'] if 'mag' not in p else p['mag'] - bc, bc)
    r = getattr(libelefun, kname)(arg, prec, rnd)
    b = Fraction(1) if base == 'one' else (1 + O.frac_of(bt)) if base == '1+x' else O.frac_of(bt)
    if base == 'x-x2/2':
        b = O.frac_of(bt) - O.frac_of(bt) ** 2 / 2
    d = dirf(sign)
    # exact value = b * (1 + d * tiny) in magnitude: any tiny below 2**(-prec-20) gives the same rounding
    tiny = abs(b) * Fraction(1, 1 << (prec + 40))
    exact = b + (tiny if (d > 0) == (b > 0) else -tiny)
    if p.get('strict', False) and (bc <= prec or base in ('one', '1+x')) and base != 'x-x2/2':
        ok, det = O.check_rounded(r, exact, prec, rnd)
    else:
        got = O.frac_of(r)
        side = {'f': got <= exact, 'c': got >= exact, 'd': abs(got) <= abs(exact), 'u': abs(got) >= abs(exact)}[rnd]
        ulp = Fraction(2) ** (r[2] + r[3] - prec)
        ulp = Fraction(2) ** (bt[2] + bc - prec) if base not in ('one', '1+x') else Fraction(2) ** (1 - prec)
        ok = O.canonical_concrete(tuple(r), prec) and side and abs(got - exact) <= 4 * ulp
        det = 'got %s, which is %s' % (got, 'on the wrong side of the exact value' if not side else 'more than 4 ulp away / not canonical')
    return ok, '%s at %r (prec %d, rounding %s): the exact value is %s %s an infinitesimal; %s' % (
        'log' if fn in ('log1', 'log2') else 'exp' if fn == 'exp1' else fn, arg, prec, rnd, '1' if base == 'one' else '1+x' if base == '1+x' else 'x', 'plus' if (d > 0) == (b > 0) else 'minus', det[:300])


# ------------------------------------------------------------------------------ the libmp wrapper honours prec= / dps= / rounding= on every path
def wrap_kw(p):
    """closures built by _wrap_libmp_function (mp.sqrt, mp.ln, mp.acos, ...): whatever path is taken -- real kernel, the
    ComplexResult fallback to the complex kernel, complex argument -- the kernel is asked for the precision and rounding given
    by the keywords, so the value handed back carries at most that many bits.  Kernels are stubs: the real kernel raises
    ComplexResult when `domain` is 'outside', otherwise returns an arbitrary canonical mpf of exactly the precision it was
    asked for; the complex kernel returns two such values."""
    from mpmath.libmp import libelefun, libmpf, libmpc
    from pysym.engine import NORMAL, RAISE
    name, kw, argk = p['name'], p['kw'], p['arg']
    ctxprec = p.get('ctxprec', 53)
    want_prec = kw.get('prec', ctxprec)
    if 'dps' in kw:
        want_prec = libmpf.dps_to_prec(kw['dps'])
    want_rnd = kw.get('rounding', 'n')
    mp = _ctx(ctxprec)
    f = getattr(mp, name)
    cells = {c.cell_contents.__name__: c.cell_contents for c in f.__closure__ if callable(getattr(c, 'cell_contents', None)) and hasattr(c.cell_contents, '__name__')}
    mpf_f = [v for k, v in cells.items() if k.startswith('mpf_')][0]
    mpc_f = [v for k, v in cells.items() if k.startswith('mpc_')][0]
    ob = Ob(wbump(p, max(ctxprec, want_prec) + 80), timeout_s=p.get('_t', 60))
    seen = []

    def fresh(tag, pr):
        return ob.mpf('%s%d' % (tag, len(seen)), pr)

    def m_real(eng, st, a, k, fr):
        seen.append(('real', a[1], a[2] if len(a) > 2 else k.get('rnd')))
        if argk == 'outside':
            return [(st, RAISE, libmpf.ComplexResult('outside the real domain'))]
        if isinstance(a[1], SInt) or not (1 <= a[1] <= 4096):
            raise Unsupported('kernel precision not concrete')
        return [(st, NORMAL, fresh('r', a[1]))]

    def m_cplx(eng, st, a, k, fr):
        seen.append(('complex', a[1], a[2] if len(a) > 2 else k.get('rnd')))
        if isinstance(a[1], SInt) or not (1 <= a[1] <= 4096):
            raise Unsupported('kernel precision not concrete')
        return [(st, NORMAL, (fresh('cr', a[1]), fresh('ci', a[1])))]
    ob.eng.models[mpf_f] = m_real
    ob.eng.models[mpc_f] = m_cplx
    x = ob.mpf('x', 7, sign=1 if argk == 'outside' else 0)
    arg = mp.make_mpc((x, ob.mpf('y', 5))) if argk == 'complex' else mp.make_mpf(x)
    n0 = len(ob.assume)
    outs = ob.run(f, [arg], dict(kw))
    G.SIDE.extend(ob.assume[n0:])

    def parts(v, st):
        if isinstance(v, mp.mpf):
            h = st.heap.get((id(v), '_mpf_'))
            return [h[1] if h is not None else v._mpf_]
        if isinstance(v, mp.mpc):
            h = st.heap.get((id(v), '_mpc_'))
            return list(h[1] if h is not None else v._mpc_)
        return None

    def good(val, st):
        ps = parts(val, st)
        if ps is None:
            return False
        # (only the result is judged: a wrapper may legitimately ask its kernel for more bits and round afterwards)
        return [z3.BoolVal(bool(seen))] + [z3.Or(is_tuple(t, FZERO), canonical(t, want_prec)) for t in ps]
    return finish(ob, ob.prove(outs, good))


def wrap_kw_concrete(p, m):
    """native replay with the real kernels: bits of every returned part <= the requested precision"""
    from mpmath.libmp import libmpf
    name, kw, argk = p['name'], p['kw'], p['arg']
    ctxprec = p.get('ctxprec', 53)
    want_prec = kw.get('prec', ctxprec)
    if 'dps' in kw:
        want_prec = libmpf.dps_to_prec(kw['dps'])
    mp = _ctx(ctxprec)
    try:
        vals = {'outside': [-2.5, -3, -0.75, 2.5, 7], 'inside': [0.5, 0.75], 'complex': [mp.mpc(0.5, 0.25)]}[argk]
        f = getattr(mp, name)
        for v in vals:
            try:
                r = f(v, **kw)
            except Exception:
                continue
            ps = [r._mpf_] if hasattr(r, '_mpf_') else list(r._mpc_)
            for t in ps:
                if t[3] > want_prec:
                    return False, 'mp.%s(%r, %s) at mp.prec = %d returned a part with %d bits (> %d requested)' % (
                        name, v, ', '.join('%s=%r' % kv for kv in kw.items()), ctxprec, t[3], want_prec)
        return None, 'UNCONFIRMED: no sampled argument reproduces'
    finally:
        mp.prec = 53


# ------------------------------------------------------------------------------ atan2: directed rounding relative to the kernels' contracts
def atan2_directed(p):
    """mpf_atan2(y, x, prec, rnd) for finite nonzero y, x and a directed mode, with the kernels replaced by their contracts:
    mpf_atan(q, p', r') returns the rounding (mode r') of an ARBITRARY irrational value Z + theta (0 < theta < 1, in units of
    2**-(prec+16)) with the sign of q; mpf_pi(p', r') the rounding of an arbitrary irrational F + phi; mpf_div is the real code
    (its mode is observed).  The exact atan(y/x) relates to the stub's atan(q) only through monotonicity: |q| <= |y/x| (quotient
    rounded toward zero) gives |atan(y/x)| >= |atan(q)|, and conversely.  Assertion: the result lies on the side of the exact
    atan2(y, x) that `rnd` prescribes -- for every value the kernels may legitimately return.  A satisfiable query is an
    abstract alarm (the wrapper is unsound relative to its kernels' contracts); it is confirmed on the real code by evaluating
    atan2 on a family of small rational points against a 400-bit reference."""
    from mpmath.libmp import libelefun, libmpf
    from pysym.engine import NORMAL
    import operator
    prec, rnd, xs, ys = p['prec'], p['rnd'], p['xsign'], p.get('ysign', 0)
    S = prec + 16
    ob = Ob(wbump(p, S + 40), timeout_s=p.get('_t', 60), models=__import__('pysym.mpmodels', fromlist=['x']).mp_models(contract_divmod=True, contract_sqrt=False))
    G.stats['DIV_PRECISE_BITS'] = 4096
    Z = ob.int('Z', 1 << (S - 2), (1 << (S - 1)) - 2)             # |atan(q)| = (Z + theta) * 2**-S  in [1/4, 1/2)
    Zt = ob.int('Zt', 1 << (S - 2), (1 << (S - 1)) - 2)           # |atan(y/x)| = (Zt + theta') * 2**-S
    F = ob.int('F', 3 << (S - 1), (4 << (S - 1)) - 2)             # pi = (F + phi) * 2**-S in [1.5, 2) (arbitrary constant)
    info = {'div': None, 'atan': [], 'pi': []}
    real_div = libmpf.mpf_div

    def m_div(eng, st, a, k, fr):
        r = a[3] if len(a) > 3 else k.get('rnd', 'd')
        info['div'] = r
        return eng.call_py(st, real_div, a, k, (fr.depth + 1) if fr is not None else 0)

    def mag_floor(r, negative):
        return r == 'd' or (r == 'f' and not negative) or (r == 'c' and negative)

    def m_atan(eng, st, a, k, fr):
        q = a[0]
        pr = a[1]
        r = a[2] if len(a) > 2 else k.get('rnd', 'd')
        if isinstance(pr, SInt) or r == 'n':
            raise Unsupported('atan stub: symbolic precision or nearest mode')
        negq = q[0]
        if isinstance(negq, SInt):
            raise Unsupported('atan stub: symbolic sign')
        info['atan'].append(r)
        man = Z if mag_floor(r, bool(negq)) else V.binop(operator.add, Z, 1)
        return eng.call(st, libmpf.from_man_exp, [V.neg(man) if negq else man, -S, pr, r], {}, fr)

    def m_pi(eng, st, a, k, fr):
        pr = a[0]
        r = a[1] if len(a) > 1 else k.get('rnd', 'd')
        if isinstance(pr, SInt) or r == 'n':
            raise Unsupported('pi stub: symbolic precision or nearest mode')
        info['pi'].append(r)
        man = F if mag_floor(r, False) else V.binop(operator.add, F, 1)
        return eng.call(st, libmpf.from_man_exp, [man, -S, pr, r], {}, fr)
    ob.eng.models[libmpf.mpf_div] = m_div
    ob.eng.models[libelefun.mpf_atan] = m_atan
    ob.eng.models[libelefun.mpf_pi] = m_pi
    y = ob.mpf('y', 4, sign=ys, exp=ob.int('y_exp', -6, 6))
    x = ob.mpf('x', 4, sign=xs, exp=ob.int('x_exp', -6, 6))
    n0 = len(ob.assume)
    outs = ob.run(libelefun.mpf_atan2, [y, x, prec, rnd])
    G.SIDE.extend(ob.assume[n0:])
    # the final mode refers to the signed result; for y < 0 mpmath evaluates -atan2(-y, x) with the mirrored mode, so the
    # kernels see y > 0 and the mirrored mode; the truth below is stated for the signed result
    neg_res = bool(ys)

    def good(val, st):
        if not (isinstance(val, tuple) and len(val) == 4):
            return False
        dr = info['div']
        if dr is None:
            return False
        # relation between |atan(y/x)| and |atan(q)| from the quotient's rounding (the kernels see |y|)
        qneg = bool(xs)
        rel = (zt(Zt) >= zt(Z)) if mag_floor(dr, qneg) else (zt(Zt) <= zt(Z)) if dr != 'n' else TRUE
        rs, rm, re, rb = [zt(c) for c in val]
        dd = re + B(S)
        Rint = rm << dd
        inrange = z3.And(dd >= B(0), dd <= B(S + 4), z3.LShR(Rint, dd) == rm)
        if not xs:
            lo_true, hi_true = zt(Zt), zt(Zt) + B(1)                       # |value| in (Zt, Zt+1)
        else:
            lo_true, hi_true = zt(F) - zt(Zt) - B(1), zt(F) - zt(Zt) + B(1)  # pi - |atan|: in (F-Zt-1, F-Zt+1)
        away = {'f': neg_res, 'c': not neg_res, 'd': False, 'u': True}[rnd]
        side = z3.UGE(Rint, hi_true) if away else z3.ULE(Rint, lo_true)
        return [z3.And(canonical(val, prec), (rs == B(1)) == z3.BoolVal(neg_res), inrange), z3.Implies(z3.And(rel, inrange), side)]
    return finish(ob, ob.prove(outs, good))


def atan2_directed_concrete(p, m):
    """dynamic confirmation of the abstract alarm on the real code: atan2 at small dyadic points, 400-bit reference"""
    import mpmath
    from fractions import Fraction
    from mpmath.libmp import libelefun, libmpf
    prec, rnd, xs, ys = p['prec'], p['rnd'], p['xsign'], p.get('ysign', 0)
    mp = mpmath.mp
    old = mp.prec
    tried = 0
    try:
        for P in (prec, 24, 53):
            for a in range(1, 120, 2):
                for b in (3, 7, 11, 29, 101, 255):
                    yv = (ys, a, -3, a.bit_length())
                    xv = (xs, b, -2, b.bit_length())
                    r = libelefun.mpf_atan2(yv, xv, P, rnd)
                    mp.prec = 400
                    t = mp.atan2(mp.make_mpf(yv), mp.make_mpf(xv))
                    exact = O.frac_of(t._mpf_)
                    mp.prec = old
                    got = O.frac_of(r)
                    tried += 1
                    ok = {'f': got <= exact, 'c': got >= exact, 'd': abs(got) <= abs(exact), 'u': abs(got) >= abs(exact)}[rnd]
                    # the reference is itself rounded at 400 bits: only report when the gap is far larger than that
                    if not ok and abs(got - exact) > Fraction(1, 1 << 300):
                        return False, 'mpf_atan2(%r, %r, %d, %r) = %s lies on the wrong side of atan2 = %s...' % (yv, xv, P, rnd, got, str(float(exact)))
        return None, 'UNCONFIRMED: abstract alarm (wrapper unsound relative to kernel contracts), %d concrete points were on the right side' % tried
    finally:
        mp.prec = old


# ------------------------------------------------------------------------------ complex elementary wrappers: final rounding (C10)
_STUB_PREC_IDX = {'mpf_atan2': 2, 'mpf_hypot': 2, 'mpf_pi': 0, 'mpf_pow': 2, 'mpc_pow': 2, 'mpf_nthroot': 2, 'mpc_nthroot': 2, 'mpf_e': 0, 'mpf_ln2': 0}
_STUB_PAIR = {'mpf_cos_sin', 'mpf_cosh_sinh', 'mpf_cos_sin_pi'}
_STUB_NAMES = ['mpf_log', 'mpf_exp', 'mpf_atan', 'mpf_atan2', 'mpf_cos_sin', 'mpf_cosh_sinh', 'mpf_cos_sin_pi', 'mpf_hypot', 'mpf_pi', 'mpf_pow',
               'mpf_cos', 'mpf_sin', 'mpf_tan', 'mpf_cosh', 'mpf_sinh', 'mpf_tanh', 'mpf_acos', 'mpf_asin', 'mpf_atanh', 'mpf_asinh', 'mpf_acosh',
               'mpf_expm1', 'mpf_log1p', 'mpf_sqrt', 'mpf_nthroot', 'mpf_e', 'mpf_ln2',
               'mpc_log', 'mpc_exp', 'mpc_sqrt', 'mpc_abs', 'mpc_pow', 'mpc_cos', 'mpc_sin', 'mpc_tan', 'mpc_cosh', 'mpc_sinh', 'mpc_tanh',
               'mpc_atan', 'mpc_acos', 'mpc_asin', 'mpc_cos_sin', 'mpc_arg', 'mpc_nthroot', 'acos_asin']


def cwrap_bits(p):
    """complex elementary functions of libmpc built from other kernels (mpc_atanh = (log(1+z) - log(1-z))/2, ...): with every
    transcendental kernel they call replaced by a stub returning ARBITRARY canonical values of exactly the precision it was
    asked for, both parts of the value handed back are canonical with at most `prec` bits."""
    from mpmath.libmp import libelefun, libmpf, libmpc
    from pysym.engine import NORMAL
    fn, prec, rnd = p['fn'], p['prec'], p['rnd']
    ob = Ob(wbump(p, 2 * prec + 160), timeout_s=p.get('_t', 60))
    cnt = [0]

    def mk(q):
        cnt[0] += 1
        n0 = len(ob.assume)
        t = ob.mpf('k%d' % cnt[0], q)
        G.SIDE.extend(ob.assume[n0:])
        return t

    def make_stub(name):
        idx = _STUB_PREC_IDX.get(name, 1)
        cplx = name.startswith('mpc_') and name not in ('mpc_abs', 'mpc_arg') or name == 'acos_asin'

        def stub(eng, st, args, kw, fr):
            q = args[idx] if len(args) > idx else kw.get('prec')
            if isinstance(q, SInt) or q is None or not (1 <= q <= 4096):
                raise Unsupported('stubbed kernel %s called with a symbolic or missing precision' % name)
            if cplx or name in _STUB_PAIR:
                return [(st, NORMAL, (mk(q), mk(q)))]
            return [(st, NORMAL, mk(q))]
        return stub
    from mpmath.libmp import libhyper
    target = getattr(libmpc, fn, None) or getattr(libhyper, fn)
    for name in _STUB_NAMES:
        for mod in (libelefun, libmpf, libmpc):
            f = getattr(mod, name, None)
            if f is not None and f is not target:
                ob.eng.models[f] = make_stub(name)
                break
    z = (ob.mpf('re', 4, exp=p.get('rexp', -3)), ob.mpf('im', 3, exp=p.get('iexp', -2)))
    if p.get('two'):
        # two-argument functions with a convergence loop (mpc_agm): the loop is cut after its first iteration by letting the
        # convergence test (mpf_lt) succeed -- what is judged is the value handed back on exit
        w = (ob.mpf('re2', 3, exp=-1), ob.mpf('im2', 4, exp=-3))
        ob.eng.models[libmpf.mpf_lt] = lambda eng, st, a, k, fr: [(st, NORMAL, True)]
        outs = ob.run(target, [z, w, prec, rnd])
    else:
        outs = ob.run(target, [z, prec, rnd])

    def okc(c):
        return z3.Or(is_tuple(c, FZERO), canonical(c, prec))

    def good(val, st):
        if isinstance(val, tuple) and len(val) == 2 and isinstance(val[0], tuple):
            return [okc(val[0]), okc(val[1])]
        if isinstance(val, tuple) and len(val) == 4:
            return okc(val)
        return False
    return finish(ob, ob.prove(outs, good))


def cwrap_bits_concrete(p, m):
    from mpmath.libmp import libmpc
    fn, prec, rnd = p['fn'], p['prec'], p['rnd']
    zs = [((m.get('re_sign', 0), m.get('re_man', 9), p.get('rexp', -3), 4), (m.get('im_sign', 0), m.get('im_man', 5), p.get('iexp', -2), 3)),
          ((0, 9, -3, 4), (0, 5, -2, 3)), ((1, 13, -3, 4), (0, 7, -2, 3)), ((0, 11, 1, 4), (1, 5, 0, 3))]
    from mpmath.libmp import libhyper
    f_ = getattr(libmpc, fn, None) or getattr(libhyper, fn)
    for z in zs:
        try:
            r = f_(z, ((0, 5, -1, 3), (0, 9, -3, 4)), prec, rnd) if p.get('two') else f_(z, prec, rnd)
        except Exception:
            continue
        parts = list(r) if isinstance(r[0], tuple) else [r]
        bad = [c for c in parts if not O.canonical_concrete(tuple(c), prec)]
        if bad:
            return False, '%s(%r, %d, %r) returned parts with %s bits' % (fn, z, prec, rnd, [c[3] for c in parts])
    return None, 'UNCONFIRMED: the sampled arguments give at most %d bits' % prec


# ------------------------------------------------------------------------------ gamma next to its pole at 0
def gamma_pole(p):
    """mpf_gamma(x, prec, rnd) for x = +-2**-k: gamma(x) = 1/x - 0.5772... + O(x), so for k >= prec + 3 the exact value lies
    strictly between the representable 2**k and its neighbour toward zero... (x > 0: just BELOW 2**k; x < 0: just below -2**k,
    i.e. larger in magnitude).  `k` symbolic in the range of the pole shortcut (mag < -wp); `kfix` pins a concrete k (used for
    the boundary mag == -wp .. -wp+2, where the general algorithm runs -- too deep for the interpreter, so only the native
    replay exists there)."""
    from mpmath.libmp import gammazeta
    from vlib.oracle import ref_round
    prec, rnd, sign = p['prec'], p['rnd'], p['sign']
    if 'kfix' in p:
        raise Unsupported('concrete boundary exponent: native replay only')
    ob = Ob(wbump(p, prec + 120), timeout_s=p.get('_t', 60))
    k = ob.int('k', prec + 22, prec + 90)
    x = (sign, 1, V.neg(k), 1)
    outs = ob.run(gammazeta.mpf_gamma, [x, prec, rnd])
    S = prec + 3
    # |value| = 2**k -/+ (less than one): at scale 2**(k - S):  A = 2**S - 1 (x > 0) or 2**S (x < 0), sticky
    A = (B(1) << S) - (B(0) if sign else B(1))
    neg = z3.BoolVal(bool(sign))
    R = ref_round(A, TRUE, prec, rnd, neg, S, S + 1)

    def good(val, st):
        if not (isinstance(val, tuple) and len(val) == 4):
            return False
        return value_matches(val, neg, R, zt(k) - B(S), S + 4, prec)
    return finish(ob, ob.prove(outs, good))


def gamma_pole_concrete(p, m):
    from fractions import Fraction
    from mpmath.libmp import gammazeta
    prec, rnd, sign = p['prec'], p['rnd'], p['sign']
    k = p.get('kfix', m.get('k') if m else None)
    x = (sign, 1, -k, 1)
    r = gammazeta.mpf_gamma(x, prec, rnd)
    exact = (Fraction(2) ** k) * (-1 if sign else 1) - Fraction(5772, 10000)      # any value in (0, 1) in place of Euler's constant gives the same rounding
    ok, det = O.check_rounded(r, exact, prec, rnd)
    return ok, 'mpf_gamma(%s2**-%d, %d, %r): gamma(x) = 1/x - 0.5772... lies just below %s2**%d; %s' % ('-' if sign else '', k, prec, rnd, '-' if sign else '', k, det[:200])


# ------------------------------------------------------------------------------ log-gamma next to the pole: -log|x| with the mirrored mode
def loggamma_tiny(p):
    """mpf_gamma(x, prec, rnd, type=3) for |x| < 2**-(prec+21): log|gamma(x)| = -log|x| - euler*x + ..., and the code returns
    -mpf_log(|x|).  With mpf_log replaced by the directed rounding of an ARBITRARY irrational L + theta (stub returns floor or
    ceiling according to the mode it is given; log|x| < 0 here, so L is the magnitude and the stub's value is negative), the
    result must be the rounding of +(L + theta) in the direction `rnd` asks: floor -> L's floor, ceiling -> L's ceiling."""
    from mpmath.libmp import gammazeta, libelefun, libmpf
    from pysym.engine import NORMAL
    import operator
    prec, rnd, sign = p['prec'], p['rnd'], p['sign']
    ob = Ob(wbump(p, prec + 120), timeout_s=p.get('_t', 60))
    Lf = ob.int('L', 1 << (prec - 1), (1 << prec) - 2)          # |log|x|| = (L + theta) * 2**e, L has exactly prec bits
    e = 7 - prec
    seen = []

    def m_log(eng, st, a, k, fr):
        pr = a[1]
        r = a[2] if len(a) > 2 else k.get('rnd', 'd')
        if isinstance(pr, SInt) or pr != prec or r == 'n':
            raise Unsupported('log stub: precision %r mode %r' % (pr, r))
        seen.append(r)
        # value is negative: floor/up -> larger magnitude (L+1), ceiling/down -> L
        man = V.binop(operator.add, Lf, 1) if r in ('f', 'u') else Lf
        return eng.call(st, libmpf.from_man_exp, [V.neg(man), e], {}, fr)
    ob.eng.models[libelefun.mpf_log] = m_log
    x = ob.mpf('x', 3, exp=ob.int('x_exp', -prec - 90, -prec - 30), sign=sign)
    outs = ob.run(gammazeta.mpf_gamma, [x, prec, rnd, 3])
    want = V.binop(operator.add, Lf, 1) if rnd in ('c', 'u') else Lf       # result is positive

    def good(val, st):
        if not (isinstance(val, tuple) and len(val) == 4):
            return False
        return value_matches(val, FALSE, zt(want), B(e), prec + 2, prec)
    return finish(ob, ob.prove(outs, good))


def loggamma_tiny_concrete(p, m):
    from fractions import Fraction
    import mpmath
    from mpmath.libmp import gammazeta
    prec, rnd, sign = p['prec'], p['rnd'], p['sign']
    mp = mpmath.mp
    old = mp.prec
    try:
        for k in (prec + 40, prec + 55, m.get('x_exp', -prec - 40) * -1):
            x = (sign, 5, -k, 3)
            r = gammazeta.mpf_gamma(x, prec, rnd, 3)
            mp.prec = 500
            t = mp.loggamma(abs(mp.make_mpf(x))) if not sign else mp.log(abs(mp.gamma(mp.make_mpf(x))))
            exact = O.frac_of(t._mpf_)
            mp.prec = old
            got = O.frac_of(r)
            ok = {'f': got <= exact, 'c': got >= exact, 'd': abs(got) <= abs(exact), 'u': abs(got) >= abs(exact)}[rnd]
            if not ok and abs(got - exact) > Fraction(1, 1 << 400):
                return False, 'mpf_gamma(%r, %d, %r, type=3) = %s is on the wrong side of log|gamma(x)| = %s' % (x, prec, rnd, float(got), float(exact))
        return None, 'UNCONFIRMED'
    finally:
        mp.prec = old


# ------------------------------------------------------------------------------ native witnesses for recorded findings about interval functions
def iv_points(p):
    """no solver obligation: the witnesses of a recorded finding (interval function at a point, 600-bit reference)"""
    raise Unsupported('native witness only')


def iv_points_concrete(p, m):
    import mpmath
    from mpmath import mp, iv, mpf
    old, oldiv = mp.prec, iv.prec
    bad = []
    try:
        for fn, prec, man, exp, man2, exp2 in p['points']:
            mp.prec = 600
            x = mpf(man) * mpf(2) ** exp
            y = mpf(man2) * mpf(2) ** exp2 if man2 is not None else None
            iv.prec = prec
            if fn == 'atan2':
                t = mp.atan2(x, y)
                r = iv.atan2(iv.mpf(x), iv.mpf(y))
            elif fn == 'pow':
                t = x ** y
                r = iv.mpf(x) ** iv.mpf(y)
            else:
                t = getattr(mp, fn)(x)
                r = getattr(iv, fn)(iv.mpf(x))
            lo, hi = mpf(r.a), mpf(r.b)
            if not (lo <= t <= hi):
                mp.prec = 70
                bad.append('iv.%s(%s%s) at %d bits = [%s, %s] does not contain %s' % (fn, mp.nstr(x, 25), '' if y is None else ', ' + mp.nstr(y, 25), prec, mp.nstr(lo, 22), mp.nstr(hi, 22), mp.nstr(t, 25)))
        return not bad, '; '.join(bad[:3])
    finally:
        mp.prec, iv.prec = old, oldiv


# ------------------------------------------------------------------------------ _wrap_specfun: the wrapped special functions round their result
def specfun_wrap(p):
    """f_wrapped (the closure _wrap_specfun builds around every @defun_wrapped special function: convert arguments, work at
    prec+10, restore, return +retval): with the wrapped function replaced by a stub returning an ARBITRARY mpf (resp. mpc) of
    up to prec+10 bits, the value handed back has at most prec bits and the context precision is restored."""
    from pysym.engine import NORMAL
    name, prec, kind = p['name'], p['prec'], p.get('kind', 'mpf')
    mp = _ctx(prec)
    f = getattr(mp, name)
    fw = getattr(f, '__func__', f)
    if fw.__name__ != 'f_wrapped':
        raise Unsupported('%s is not wrapped by _wrap_specfun' % name)
    inner = [c.cell_contents for c in fw.__closure__ if callable(getattr(c, 'cell_contents', None))]
    if len(inner) != 1:
        raise Unsupported('cannot identify the wrapped function')
    ob = Ob(wbump(p, prec + 90), timeout_s=p.get('_t', 60))
    a = ob.mpf('r', prec + 10)
    b = ob.mpf('i', prec + 7)
    seen = []

    def stub(eng, st, args, kw, fr):
        seen.append(1)
        return [(st, NORMAL, mp.make_mpf(a) if kind == 'mpf' else mp.make_mpc((a, b)))]
    ob.eng.models[inner[0]] = stub
    outs = ob.run(f, [mp.make_mpf((0, 5, -2, 3))])

    def good(val, st):
        if kind == 'mpf':
            if not isinstance(val, mp.mpf):
                return False
            h = st.heap.get((id(val), '_mpf_'))
            parts = [h[1] if h is not None else val._mpf_]
        else:
            if not isinstance(val, mp.mpc):
                return False
            h = st.heap.get((id(val), '_mpc_'))
            parts = list(h[1] if h is not None else val._mpc_)
        hp = st.heap.get((id(mp), '_prec'))
        restored = hp is None or (not isinstance(hp[1], SInt) and hp[1] == prec)
        return [z3.BoolVal(bool(seen) and restored)] + [canonical(t, prec) for t in parts]
    return finish(ob, ob.prove(outs, good))


def specfun_wrap_concrete(p, m):
    name, prec = p['name'], p['prec']
    mp = _ctx(prec)
    try:
        for x in (1.25, 0.3, 2.5):
            try:
                r = getattr(mp, name)(x)
            except Exception:
                continue
            parts = [r._mpf_] if hasattr(r, '_mpf_') else list(r._mpc_)
            if any(t[3] > prec for t in parts) or mp.prec != prec:
                return False, 'mp.%s(%r) at prec %d returned %s bits, precision afterwards %d' % (name, x, prec, [t[3] for t in parts], mp.prec)
        return None, 'UNCONFIRMED'
    finally:
        mp.prec = 53


# ------------------------------------------------------------------------------ powm1: exactly zero when x**y == 1
def powm1_exact(p):
    """mp.powm1(x, y) for the exact cases x**y == 1: y == 0 with x an arbitrary nonzero real (symbolic), and x in {1, -1} with y
    an arbitrary integer-valued real (symbolic mantissa, exponent >= 0): the result is exactly 0 (resp. exactly -2 for x = -1 and
    odd y)."""
    case, prec = p['case'], p.get('prec', 20)
    mp = _ctx(prec)
    ob = Ob(wbump(p, 120), timeout_s=p.get('_t', 60))
    if case == 'y0':
        x = mp.make_mpf(ob.mpf('x', 5, exp=ob.int('x_exp', -20, 20)))
        y = mp.mpf(0)
        want = lambda: FZERO
    else:
        x = mp.mpf(1 if case == 'x1' else -1)
        ye = p.get('yexp', 0)
        ym = ob.mpf('y', 4, exp=ye)
        y = mp.make_mpf(ym)
    outs = ob.run(mp.powm1, [x, y])

    def good(val, st):
        if not isinstance(val, mp.mpf):
            return False
        h = st.heap.get((id(val), '_mpf_'))
        t = h[1] if h is not None else val._mpf_
        if case in ('y0', 'x1'):
            return is_tuple(t, FZERO)
        # x = -1: y = man * 2**ye is even iff ye >= 1 (man is odd)
        return is_tuple(t, FZERO) if p.get('yexp', 0) >= 1 else is_tuple(t, (1, 1, 1, 1))
    return finish(ob, ob.prove(outs, good))


def powm1_exact_concrete(p, m):
    case, prec = p['case'], p.get('prec', 20)
    mp = _ctx(prec)
    try:
        if case == 'y0':
            x = mp.make_mpf((m.get('x_sign', 0), m.get('x_man', 17), m.get('x_exp', 0), 5))
            r = mp.powm1(x, 0)
            return r._mpf_ == FZERO, 'powm1(%r, 0) = %r' % (x, r)
        x = 1 if case == 'x1' else -1
        y = mp.make_mpf((m.get('y_sign', 0), m.get('y_man', 9), p.get('yexp', 0), 4))
        r = mp.powm1(x, y)
        want = FZERO if (case == 'x1' or p.get('yexp', 0) >= 1) else (1, 1, 1, 1)
        return r._mpf_ == want, 'powm1(%d, %r) = %r' % (x, y, r)
    finally:
        mp.prec = 53


# ------------------------------------------------------------------------------ digamma (real): the Euler-Maclaurin path rounds to prec
def psi0_bits(p):
    """mpf_psi0(x, prec, rnd) for 2 <= x < 4 on its main path (recurrence + Euler-Maclaurin sum in fixed point; mpf_log stubbed by
    an arbitrary value of the precision it is asked for): the returned value has at most `prec` bits."""
    from mpmath.libmp import gammazeta, libelefun
    from pysym.engine import NORMAL
    prec, rnd = p['prec'], p['rnd']
    ob = Ob(wbump(p, 6 * (prec + 12) + 80), timeout_s=p.get('_t', 60), mul_precise_bits=4096, max_unroll=40,
            models=__import__('pysym.mpmodels', fromlist=['x']).mp_models(contract_divmod=True, contract_sqrt=False))
    G.stats['DIV_PRECISE_BITS'] = 4096
    cnt = [0]

    def m_log(eng, st, a, k, fr):
        q = a[1]
        if isinstance(q, SInt):
            raise Unsupported('symbolic precision for the stubbed log')
        cnt[0] += 1
        n0 = len(ob.assume)
        # log of a number in [1, 6): a positive value below 2
        t = ob.mpf('lg%d' % cnt[0], q, exp=-q, sign=0)
        G.SIDE.extend(ob.assume[n0:])
        return [(st, NORMAL, t)]
    ob.eng.models[libelefun.mpf_log] = m_log
    # Bernoulli numbers are requested with concrete arguments: take them from the real (cached) routine natively
    real_bern = gammazeta.mpf_bernoulli
    ob.eng.models[real_bern] = lambda eng, st, a, k, fr: [(st, NORMAL, real_bern(*a, **k))]
    x = ob.mpf('x', 4, exp=p.get('xexp', -2), sign=0)        # 8..15 quarters = 2 .. 3.75
    outs = ob.run(gammazeta.mpf_psi0, [x, prec, rnd])
    return finish(ob, ob.prove(outs, lambda v, st: canonical(v, prec) if isinstance(v, tuple) and len(v) == 4 else False))


def psi0_bits_concrete(p, m):
    from mpmath.libmp import gammazeta
    prec, rnd = p['prec'], p['rnd']
    x = (0, m.get('x_man', 9), p.get('xexp', -2), 4)
    r = gammazeta.mpf_psi0(x, prec, rnd)
    return r[3] <= prec, 'mpf_psi0(%r, %d, %r) has %d bits' % (x, prec, rnd, r[3])


def besseljn_bits(p):
    """mpf_besseljn(n, x, prec, rnd) -- the fixed-point series behind besselj/j0/j1 for integer order and moderate argument --
    returns at most `prec` bits.  x symbolic with a mantissa longer than prec and a magnitude small enough for the series loop to
    end after its first terms (the loop itself runs for real)."""
    from mpmath.libmp import libhyper
    n, prec, rnd = p['n'], p['prec'], p['rnd']
    ob = Ob(wbump(p, 4 * (prec + 80)), timeout_s=p.get('_t', 60), mul_precise_bits=4096, max_unroll=12,
            models=__import__('pysym.mpmodels', fromlist=['x']).mp_models(contract_divmod=True, contract_sqrt=False))
    G.stats['DIV_PRECISE_BITS'] = 4096
    x = ob.mpf('x', p.get('bc', 7), exp=p.get('xexp', -50))
    outs = ob.run(libhyper.mpf_besseljn, [n, x, prec, rnd])
    return finish(ob, ob.prove(outs, lambda v, st: z3.Or(is_tuple(v, FZERO), canonical(v, prec)) if isinstance(v, tuple) and len(v) == 4 else False))


def besseljn_bits_concrete(p, m):
    from mpmath.libmp import libhyper
    n, prec, rnd = p['n'], p['prec'], p['rnd']
    x = (m.get('x_sign', 0), m.get('x_man', 77), p.get('xexp', -50), p.get('bc', 7))
    r = libhyper.mpf_besseljn(n, x, prec, rnd)
    return r[3] <= prec, 'mpf_besseljn(%d, %r, %d, %r) has %d bits' % (n, x, prec, rnd, r[3])


def bits_points(p):
    """no solver obligation: native witnesses of a recorded finding (public function at a point returns more bits than mp.prec)"""
    raise Unsupported('native witness only')


def bits_points_concrete(p, m):
    import mpmath
    mp = mpmath.mp
    old = mp.prec
    bad = []
    try:
        for name, prec, argtext in p['points']:
            mp.prec = prec
            args = [mp.mpmathify(a.strip()) if 'j' in a else mp.mpf(a.strip()) for a in argtext.split(',')]
            try:
                r = getattr(mp, name)(*args)
            except Exception as e:
                continue
            parts = [r._mpf_] if hasattr(r, '_mpf_') else list(r._mpc_) if hasattr(r, '_mpc_') else []
            bits = [t[3] for t in parts]
            if any(b > prec for b in bits):
                bad.append('%s(%s) at %d bits returns %s bits' % (name, argtext, prec, bits))
        return not bad, '; '.join(bad[:4])
    finally:
        mp.prec = old
