"""C06 -- integer-part functions and modulo follow their exact definitions."""
from vlib.oracle import RNDS
from checks import c02 as _c02

PROPERTY = 'C06'
LEVEL = 'other'
F2 = 'checks.fam_arith2:'
EXPLANATION = (
    "Bounded symbolic verification (same engine and discipline as C02).  mpf_floor/mpf_ceil/mpf_nint (mpf_round_int), mpf_frac, "
    "to_int (all rounding arguments) and mpf_mod are executed symbolically from /repo's source; per shape (mantissa bit length, "
    "concrete binary exponent so that every case mag<0, mag=0, mag=1, ties, integer-valued, long mantissa is crossed, precision, "
    "rounding mode) the solver decides that the result equals the exact integer part / fractional part / remainder (reference "
    "written on magnitudes with bvurem and the sign rule of Python's %), correctly rounded to the requested precision when one is "
    "given, for ALL mantissa bits and signs.  API routes: mp.floor/ceil/nint (closures built by _wrap_libmp_function, with and "
    "without prec=/rounding= keywords) on real and on complex arguments (componentwise, mpc_floor/ceil/nint/frac), the % operator and fmod.  Counterexamples are replayed natively with math.floor/round on Fractions."
)
TRUSTED = _c02.TRUSTED
ASSUMPTIONS = _c02.ASSUMPTIONS + ["binary exponent of the argument is concrete per obligation (grid below); mod: operand signs concrete per obligation"]
BUDGET = {'quick': dict(ob_deadline_s=100, total_s=240), 'thorough': dict(ob_deadline_s=600, total_s=1500)}
BOUNDS = {'quick': 'mantissa 1..12 bits, exponents -14..4, precisions 0 (exact) and 1..8, all modes; mod operands <= 9 bits, offsets -14..8',
          'thorough': 'mantissa up to 64 bits, exponents -70..10, mod operands up to 16 bits'}


def obligations(tier, seed=0):
    obs = []
    thorough = tier == 'thorough'

    def add(fam, **kw):
        if thorough:
            kw['_t'] = 600
        obs.append((F2 + fam, kw))
    shapes = [(1, -1), (1, -3), (1, 0), (2, -1), (3, -1), (3, -2), (3, -3), (3, -4), (5, -2), (5, -5), (5, -6), (5, -7), (5, 3), (8, -1), (12, -4)]
    if thorough:
        shapes += [(20, -10), (24, -24), (24, -25), (53, -60), (53, -1), (64, -32), (9, -70), (30, 10)]
    for fn in ('mpf_floor', 'mpf_ceil', 'mpf_nint'):
        for bc, e in shapes:
            add('round_int', bc=bc, exp=e, fn=fn)
        # with a final precision: integer part longer than prec, integer-valued long mantissa, ...
        for bc, e, prec in [(9, -2, 3), (9, 1, 3), (9, -8, 3), (9, -12, 3), (6, -1, 8), (12, -3, 5), (7, 0, 2)]:
            for rnd in RNDS:
                add('round_int', bc=bc, exp=e, fn=fn, prec=prec, rnd=rnd)
        add('round_int', bc=9, exp=-2, fn=fn, prec=3, rnd='n', entry='ctx')
        add('round_int', bc=9, exp=2, fn=fn, prec=3, rnd='n', entry='ctx')
        for rnd in 'ncd':
            add('round_int', bc=9, exp=-2, fn=fn, prec=4, rnd=rnd, entry='kw')
    for bc, e in shapes:
        for prec, rnd in [(0, 'd'), (2, 'n'), (4, 'c'), (3, 'f')]:
            if prec == 0 and e >= 0:
                continue
            add('frac', bc=bc, exp=e, prec=prec, rnd=rnd)
        for rnd in (None, 'f', 'c', 'd', 'u', 'n'):
            add('to_int', bc=bc, exp=e, rnd=rnd)
    mshapes = [(5, 4, 2, 3), (5, 4, -3, 3), (6, 3, 4, 8), (3, 6, 0, 4), (4, 4, 0, 2), (9, 3, -14, 4), (3, 9, -14, 4), (5, 1, 8, 4), (5, 1, -2, 4), (1, 5, 3, 2)]
    if thorough:
        mshapes += [(12, 9, 5, 6), (16, 5, 12, 8), (8, 16, -10, 8), (20, 6, -30, 5)]
    for sbc, tbc, off, prec in mshapes:
        for ss in (0, 1):
            for ts in (0, 1):
                for rnd in ('n', 'f', 'c') if not thorough else RNDS:
                    add('mod', sbc=sbc, tbc=tbc, off=off, prec=prec, rnd=rnd, ssign=ss, tsign=ts)
    # exact zero dividend (its tuple has exponent 0 and bit count 0: every shortcut must still be right)
    for tbc in (1, 3, 9):
        for ts in (0, 1):
            for rnd in ('n', 'f', 'c'):
                add('mod', sbc=0, tbc=tbc, off=0, prec=4, rnd=rnd, ssign=0, tsign=ts, E=40)
    add('mod', sbc=0, tbc=3, off=0, prec=4, rnd='n', ssign=0, tsign=1, entry='op', E=40)
    add('mod', sbc=5, tbc=4, off=2, prec=3, rnd='n', ssign=0, tsign=1, entry='op')
    add('mod', sbc=9, tbc=3, off=-14, prec=4, rnd='n', ssign=1, tsign=1, entry='op')
    # seeded random shapes (deterministic for a given VERIF_SEED)
    import random
    rng = random.Random(2000 + int(seed or 0))
    for _ in range(24 if tier != 'thorough' else 100):
        rnd = rng.choice('nfcdu')
        bc = rng.randint(1, 14)
        e = rng.randint(-bc - 4, 4)
        add('round_int', bc=bc, exp=e, fn=rng.choice(['mpf_floor', 'mpf_ceil', 'mpf_nint']), prec=rng.choice([0, 1, 2, 3, 5, 8]), rnd=rnd)
        add('frac', bc=bc, exp=e, prec=rng.choice([1, 2, 3, 5, 8]), rnd=rnd)
        add('to_int', bc=bc, exp=e, rnd=rng.choice([None, 'f', 'c', 'd', 'u', 'n']))
        add('mod', sbc=rng.randint(1, 9), tbc=rng.randint(1, 9), off=rng.randint(-16, 10), prec=rng.choice([1, 2, 3, 4, 6]), rnd=rnd,
            ssign=rng.randint(0, 1), tsign=rng.randint(0, 1))
    # fmod(x, y) == x % y on converted arguments
    for ss in (0, 1):
        for ts in (0, 1):
            add('mod', sbc=5, tbc=4, off=2, prec=3, rnd='n', ssign=ss, tsign=ts, entry='fmod')
            add('mod', sbc=4, tbc=6, off=-3, prec=5, rnd='n', ssign=ss, tsign=ts, entry='fmod')
    add('mod', sbc=0, tbc=3, off=0, prec=4, rnd='n', ssign=0, tsign=1, entry='fmod', E=40)
    # complex arguments: floor / ceil / nint / frac componentwise
    for kind in ('floor', 'ceil', 'nint', 'frac'):
        add('cround', kind=kind, bcs=[5, 4], exps=[-2, -3], prec=3)
        add('cround', kind=kind, bcs=[7, 4], exps=[-3, 2], prec=3)
        add('cround', kind=kind, bcs=[3, 9], exps=[-5, -1], prec=4)            # |re| < 1, long imaginary part
        for rnd in ('f', 'c', 'n'):
            add('cround', kind=kind, bcs=[7, 6], exps=[-3, -2], prec=3, rnd=rnd, entry='libmp')
        if kind != 'frac':
            add('cround', kind=kind, bcs=[6, 5], exps=[-2, -1], prec=2, rnd='u', entry='kw')
    return obs
