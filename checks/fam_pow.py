"""Families for integer powers (C03)."""
import ast
import inspect
import operator
import textwrap
from fractions import Fraction

import z3

from pysym import values as V
from pysym.values import G, SInt, SBool, bvv, zt, zb, binop, Unsupported
from pysym import mpmodels
from vlib.ob import Ob, add, sub
from vlib import oracle as O
from vlib.oracle import B, ref_round, canonical, is_tuple, value_matches, FZERO, FNAN, FINF, FNINF
from checks.fam_arith import finish, wbump, mk_tuple, libmpf, FALSE, TRUE, E30, _ctx, SPECIALS, aspect_good


def _power_term(m, bc, n):
    """exact man**n as a BV (narrow precise multiplications), with its bit-length range"""
    acc = m
    hi = (1 << bc) - 1
    cur_hi = hi
    for _ in range(n - 1):
        acc = V.narrow_mul(acc, m, (0, cur_hi), (0, hi))
        cur_hi = cur_hi * hi
    lo_bits = (bc - 1) * n + 1
    return acc, lo_bits, cur_hi.bit_length()


def pow_int(p):
    """mpf_pow_int(s, n, prec, rnd) on the exact path (bc*n < 1000) and with the exact-path threshold lowered (`limit`) so that
    the directed binary-exponentiation loop is exercised at small sizes.
    n > 0: result is the correctly rounded exact power (exact path) / lies on the correct side and within 1 ulp (loop path).
    n < 0: result lies on the correct side of 1/x**n for directed modes (cross-multiplied), within 2 ulp for nearest."""
    bc, n, prec, rnd = p['bc'], p['n'], p['prec'], p['rnd']
    limit = p.get('limit')
    an = abs(n)
    tot = bc * an
    ob = Ob(wbump(p, tot + 2 * prec + 90), timeout_s=p.get('_t', 60), mul_precise_bits=4096,
            models=mpmodels.mp_models(contract_divmod=True, contract_sqrt=False))
    G.stats['DIV_PRECISE_BITS'] = 4096
    if limit is not None:
        ob.eng.const_override[('mpf_pow_int', 1000)] = limit
    x = ob.mpf('x', bc, sign=p.get('sign'))
    L = libmpf()
    entry = p.get('entry', 'libmp')
    if entry == 'libmp':
        outs = ob.run(L.mpf_pow_int, [x, n, prec, rnd])
        unwrap = lambda v, st: v
    elif entry == 'powf':
        # the general power with an integer-valued mpf exponent (x ** mpf(n), x ** -3.0, mp.power(x, n)) must be the integer power
        from mpmath.libmp import libelefun
        outs = ob.run(libelefun.mpf_pow, [x, L.from_int(n), prec, rnd])
        unwrap = lambda v, st: v
    else:
        mp = _ctx(prec)
        outs = ob.run(mp.mpf.__pow__, [mp.make_mpf(x), n])
        cls = mp.mpf

        def unwrap(v, st):
            if not isinstance(v, cls):
                return None
            h = st.heap.get((id(v), '_mpf_'))
            return h[1] if h is not None else v._mpf_
    m_ = zt(x[1])
    neg = z3.And(zt(x[0]) == B(1), z3.BoolVal(bool(an & 1)))
    if an == 0:
        return finish(ob, ob.prove(outs, lambda v, st: is_tuple(unwrap(v, st), (0, 1, 0, 1))))
    P, plo, phi = _power_term(m_, bc, an)
    exact_path = (limit is None and tot < 1000) or (limit is not None and tot < limit) or an in (1, 2) or bc == 1
    base = zt(x[2]) * B(an) if not isinstance(x[2], int) else B(x[2] * an)

    def good(val, st):
        val = unwrap(val, st)
        if val is None:
            return False
        rs, rm, re, rb = [zt(c) for c in val]
        if n > 0:
            if exact_path:
                R = ref_round(P, FALSE, prec, rnd, neg, plo, phi)
                return value_matches(val, neg, R, base, phi + 1, prec)
            # loop path: canonical, right sign, on the correct side for directed modes, and within one ulp (2 for nearest)
            d = re - base                 # may be negative: the result can have more low bits than man**n's scale
            K = phi + prec + 8
            up = rm << d
            dn = P << (-d)
            ulp_up = B(1) << d            # one unit of the result's last place at scale base (d >= 0)
            away = {'f': neg, 'c': z3.Not(neg), 'd': FALSE, 'u': TRUE, 'n': None}[rnd]
            if away is None:
                side = TRUE
            else:
                # magnitude must be >= exact when rounding away, <= exact when rounding toward zero
                side = z3.If(d >= 0, z3.If(away, z3.UGE(up, P), z3.ULE(up, P)), z3.If(away, z3.UGE(rm, dn), z3.ULE(rm, dn)))
            # closeness: |rm*2^d - P| < 2 ulp of a prec-bit result  (ulp = 2^(bitlen(result)-prec))
            tol = B(2) << z3.If(rb + d > B(prec), rb + d - B(prec), B(0))
            diff = z3.If(z3.UGE(up, P), up - P, P - up)
            close = z3.Implies(d >= 0, z3.ULE(diff, tol))
            rng = z3.And(d <= B(K), -d <= B(K))
            return [z3.And(canonical(val, prec), (rs == B(1)) == neg, rng), z3.Implies(rng, side), z3.Implies(rng, close)]
        # n < 0: value v = 1 / (man^an * 2^(exp*an)); result r = rm * 2^re.  r ? v  <=>  rm * P ? 2^(-re - exp*an)
        t = -re - base                    # must be >= 0 for any sensible result (r*P = 2^t exactly when equal)
        K = phi + prec + 8
        lhs = V.narrow_mul(rm, P, (0, 1 << (prec + 1)), (0, 1 << phi))
        one = B(1) << t
        away = {'f': neg, 'c': z3.Not(neg), 'd': FALSE, 'u': TRUE, 'n': None}[rnd]
        if away is None:
            side = TRUE
        else:
            side = z3.If(away, z3.UGE(lhs, one), z3.ULE(lhs, one))
        # closeness: |rm*P - 2^t| <= 2 * P  (i.e. within 2 units in the last place of rm)
        diff = z3.If(z3.UGE(lhs, one), lhs - one, one - lhs)
        close = z3.ULE(diff, P << 1)
        rng = z3.And(t >= B(0), t <= B(K))
        return [z3.And(canonical(val, prec), (rs == B(1)) == neg, rng), z3.Implies(rng, side), z3.Implies(rng, close)]
    return finish(ob, ob.prove(outs, good))


def _patched_pow(limit):
    """the real mpf_pow_int source with the exact-path threshold constant replaced (native replay of a lowered-threshold obligation)"""
    L = libmpf()
    src = textwrap.dedent(inspect.getsource(L.mpf_pow_int))
    tree = ast.parse(src)

    class T(ast.NodeTransformer):
        def visit_Constant(self, node):
            if node.value == 1000 and type(node.value) is int:
                return ast.copy_location(ast.Constant(limit), node)
            return node
    tree = ast.fix_missing_locations(T().visit(tree))
    glob = dict(L.__dict__)
    exec(compile(tree, '<patched mpf_pow_int>', 'exec'), glob)
    glob['mpf_pow_int'].__globals__['mpf_pow_int'] = glob['mpf_pow_int']
    return glob['mpf_pow_int']


def pow_int_concrete(p, m):
    L = libmpf()
    bc, n, prec, rnd = p['bc'], p['n'], p['prec'], p['rnd']
    x = mk_tuple(m, 'x', bc, sign=p.get('sign'))
    limit = p.get('limit')
    if p.get('entry', 'libmp') == 'powf':
        from mpmath.libmp import libelefun
        r = libelefun.mpf_pow(x, L.from_int(n), prec, rnd)
    elif p.get('entry', 'libmp') != 'libmp':
        mp = _ctx(prec)
        try:
            r = (mp.make_mpf(x) ** n)._mpf_
        finally:
            mp.prec = 53
    elif limit is None:
        r = L.mpf_pow_int(x, n, prec, rnd)
    else:
        r = _patched_pow(limit)(x, n, prec, rnd)
    if not O.canonical_concrete(tuple(r), prec):
        return False, 'non-canonical result %r' % (r,)
    exact = O.frac_of(x, x[2]) ** n
    got = O.frac_of(r, x[2] * n)
    an = abs(n)
    exact_path = (limit is None and bc * an < 1000) or (limit is not None and bc * an < limit) or an in (1, 2) or bc == 1
    if n > 0 and exact_path:
        return O.check_rounded(r, exact, prec, rnd, shift=x[2] * n)
    if n == 0:
        return tuple(r) == (0, 1, 0, 1), 'x**0 = %r' % (r,)
    if rnd != 'n':
        lo_ok = {'f': got <= exact, 'c': got >= exact, 'd': abs(got) <= abs(exact), 'u': abs(got) >= abs(exact)}[rnd]
        if not lo_ok:
            return False, 'x**%d with rounding %s gave %s which is on the wrong side of the exact value %s (both times 2**%d)%s' % (
                n, rnd, got, exact, x[2] * n, ' [exact-path threshold lowered to %d]' % limit if limit is not None else '')
    ulp = Fraction(2) ** (r[2] + r[3] - prec - x[2] * n)
    if abs(got - exact) > 2 * ulp:
        return False, 'x**%d = %s is more than 2 ulp from the exact value %s' % (n, got, exact)
    return True, ''


def pow_special(p):
    """mpf_pow_int on special bases"""
    a, n = p['a'], p['n']
    ob = Ob(80)
    L = libmpf()
    outs = ob.run(L.mpf_pow_int, [SPECIALS[a], n, 10, 'n'])
    want = _pow_special_want(a, n)
    return finish(ob, ob.prove(outs, lambda v, st: tuple(v) == want))


def _pow_special_want(a, n):
    f = {'zero': 0.0, 'inf': float('inf'), 'ninf': float('-inf'), 'nan': float('nan')}[a]
    if a == 'nan':
        return FNAN            # documented: nan**n is nan (mpmath does not special-case n == 0 for nan)
    if a in ('inf', 'ninf') and n == 0:
        return FNAN            # documented mpmath convention (inf**0 = nan)
    try:
        r = f ** n
    except ZeroDivisionError:
        return 'raise'
    if r != r:
        return FNAN
    if r == float('inf'):
        return FINF
    if r == float('-inf'):
        return FNINF
    if r == 0:
        return FZERO
    return (0, 1, 0, 1) if r == 1 else None


def pow_special_concrete(p, m):
    L = libmpf()
    r = L.mpf_pow_int(SPECIALS[p['a']], p['n'], 10, 'n')
    want = _pow_special_want(p['a'], p['n'])
    return tuple(r) == want, 'mpf_pow_int(%s, %d) = %r, expected %r' % (p['a'], p['n'], r, want)
