#!/bin/sh
# Build the checking environment offline: a venv layered over /venv (which has mpmath's
# own deps and the editable install of /repo) plus z3/cvc5 from the offline wheelhouse.
set -e
cd "$(dirname "$0")"
if [ ! -x .venv/bin/python ] || ! .venv/bin/python -c "import z3" 2>/dev/null; then
  rm -rf .venv
  /venv/bin/python -m venv .venv
  SP=$(.venv/bin/python -c "import sysconfig; print(sysconfig.get_paths()['purelib'])")
  echo "import site; site.addsitedir('/venv/lib/python3.12/site-packages')" > "$SP/_base.pth"
  PIP_NO_INDEX=1 .venv/bin/pip install -q --no-index --find-links /opt/veriftools/wheels z3-solver
  PIP_NO_INDEX=1 .venv/bin/pip install -q --no-index --find-links /opt/veriftools/wheels cvc5 || true
fi
.venv/bin/python -c "import z3, mpmath; print('setup ok: z3', z3.get_version_string(), 'mpmath from', mpmath.__file__)"
