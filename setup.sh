#!/bin/sh
# Build the checking environment offline: a venv with z3 from the offline wheelhouse.  mpmath itself is imported from
# /repo's working tree (sys.path), never installed.  CPython 3.10 (pyenv, part of this image) is preferred: CPython >= 3.11
# mmap()s/munmap()s a 16 KB data-stack chunk whenever the (deeply recursive) interpreter crosses a chunk boundary, which
# costs ~40% system time and scales badly over 16 worker processes; 3.10 does not.  Falls back to /venv's python.
set -e
cd "$(dirname "$0")"
PY=/root/.pyenv/versions/3.10.13/bin/python
[ -x "$PY" ] || PY=/venv/bin/python
if [ ! -x .venv/bin/python ] || ! .venv/bin/python -c "import z3" 2>/dev/null || [ "$(cat .venv/.base 2>/dev/null)" != "$PY" ]; then
  rm -rf .venv
  "$PY" -m venv .venv
  PIP_NO_INDEX=1 .venv/bin/pip install -q --no-index --find-links /opt/veriftools/wheels z3-solver
  echo "$PY" > .venv/.base
fi
.venv/bin/python -c "import sys; sys.path.insert(0, '/repo'); import z3, mpmath; print('setup ok: python', sys.version.split()[0], 'z3', z3.get_version_string(), 'mpmath from', mpmath.__file__)"
